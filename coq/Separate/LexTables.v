(* The lexer's tables, tied to the source by translation: Generated/LexGen.v is regenerated from
   /repo/libvore/ast/lexer.go on every run of the C08 and C15 checks by /verif/lextab (go/parser + go/ast),
   and this file proves that the tables of the model (Model/Lexer.v) are exactly the tables written in
   the Go source NOW: the token types, the lexer states, the final `switch current_state` of getNextToken
   (fallthrough chains resolved), the keyword table and the operator table.  A change of any of them in
   the source breaks one of these theorems, whatever inputs the differential checks happen to draw. *)
From Model Require Import Lexer.
From Generated Require Import LexGen.
From Coq Require Import String List Ascii NArith Bool.
Import ListNotations.
Open Scope string_scope.

Definition ttype_name (t : ttype) : string :=
  match t with
  | Lexer.ERROR => "ERROR"
  | Lexer.EOF => "EOF"
  | Lexer.WS => "WS"
  | Lexer.COMMENT => "COMMENT"
  | Lexer.IDENTIFIER => "IDENTIFIER"
  | Lexer.NUMBER => "NUMBER"
  | Lexer.STRING => "STRING"
  | Lexer.REGEXP => "REGEXP"
  | Lexer.EQUAL => "EQUAL"
  | Lexer.COLONEQ => "COLONEQ"
  | Lexer.COMMA => "COMMA"
  | Lexer.OPENPAREN => "OPENPAREN"
  | Lexer.CLOSEPAREN => "CLOSEPAREN"
  | Lexer.OPENCURLY => "OPENCURLY"
  | Lexer.CLOSECURLY => "CLOSECURLY"
  | Lexer.PLUS => "PLUS"
  | Lexer.MINUS => "MINUS"
  | Lexer.MULT => "MULT"
  | Lexer.DIV => "DIV"
  | Lexer.LESS => "LESS"
  | Lexer.GREATER => "GREATER"
  | Lexer.LESSEQ => "LESSEQ"
  | Lexer.GREATEREQ => "GREATEREQ"
  | Lexer.DEQUAL => "DEQUAL"
  | Lexer.NEQUAL => "NEQUAL"
  | Lexer.MOD => "MOD"
  | Lexer.FIND => "FIND"
  | Lexer.REPLACE => "REPLACE"
  | Lexer.WITH => "WITH"
  | Lexer.SET => "SET"
  | Lexer.TO => "TO"
  | Lexer.PATTERN => "PATTERN"
  | Lexer.MATCHES => "MATCHES"
  | Lexer.TRANSFORM => "TRANSFORM"
  | Lexer.ALL => "ALL"
  | Lexer.SKIP => "SKIP"
  | Lexer.TAKE => "TAKE"
  | Lexer.TOP => "TOP"
  | Lexer.LAST => "LAST"
  | Lexer.ANY => "ANY"
  | Lexer.WHITESPACE => "WHITESPACE"
  | Lexer.DIGIT => "DIGIT"
  | Lexer.UPPER => "UPPER"
  | Lexer.LOWER => "LOWER"
  | Lexer.LETTER => "LETTER"
  | Lexer.WHOLE => "WHOLE"
  | Lexer.LINE => "LINE"
  | Lexer.FILE => "FILE"
  | Lexer.WORD => "WORD"
  | Lexer.START => "START"
  | Lexer.END => "END"
  | Lexer.BEGIN => "BEGIN"
  | Lexer.CASELESS => "CASELESS"
  | Lexer.NOT => "NOT"
  | Lexer.AT => "AT"
  | Lexer.LEAST => "LEAST"
  | Lexer.MOST => "MOST"
  | Lexer.BETWEEN => "BETWEEN"
  | Lexer.AND => "AND"
  | Lexer.EXACTLY => "EXACTLY"
  | Lexer.MAYBE => "MAYBE"
  | Lexer.FEWEST => "FEWEST"
  | Lexer.NAMED => "NAMED"
  | Lexer.IN => "IN"
  | Lexer.OR => "OR"
  | Lexer.IF => "IF"
  | Lexer.THEN => "THEN"
  | Lexer.ELSE => "ELSE"
  | Lexer.DEBUG => "DEBUG"
  | Lexer.RETURN => "RETURN"
  | Lexer.HEAD => "HEAD"
  | Lexer.TAIL => "TAIL"
  | Lexer.LOOP => "LOOP"
  | Lexer.BREAK => "BREAK"
  | Lexer.CONTINUE => "CONTINUE"
  | Lexer.TRUE => "TRUE"
  | Lexer.FALSE => "FALSE"
  end.

Definition all_ttypes : list ttype :=
  [Lexer.ERROR; Lexer.EOF; Lexer.WS; Lexer.COMMENT; Lexer.IDENTIFIER; Lexer.NUMBER; Lexer.STRING; Lexer.REGEXP; Lexer.EQUAL; Lexer.COLONEQ; Lexer.COMMA; Lexer.OPENPAREN; Lexer.CLOSEPAREN; Lexer.OPENCURLY; Lexer.CLOSECURLY; Lexer.PLUS; Lexer.MINUS; Lexer.MULT; Lexer.DIV; Lexer.LESS; Lexer.GREATER; Lexer.LESSEQ; Lexer.GREATEREQ; Lexer.DEQUAL; Lexer.NEQUAL; Lexer.MOD; Lexer.FIND; Lexer.REPLACE; Lexer.WITH; Lexer.SET; Lexer.TO; Lexer.PATTERN; Lexer.MATCHES; Lexer.TRANSFORM; Lexer.ALL; Lexer.SKIP; Lexer.TAKE; Lexer.TOP; Lexer.LAST; Lexer.ANY; Lexer.WHITESPACE; Lexer.DIGIT; Lexer.UPPER; Lexer.LOWER; Lexer.LETTER; Lexer.WHOLE; Lexer.LINE; Lexer.FILE; Lexer.WORD; Lexer.START; Lexer.END; Lexer.BEGIN; Lexer.CASELESS; Lexer.NOT; Lexer.AT; Lexer.LEAST; Lexer.MOST; Lexer.BETWEEN; Lexer.AND; Lexer.EXACTLY; Lexer.MAYBE; Lexer.FEWEST; Lexer.NAMED; Lexer.IN; Lexer.OR; Lexer.IF; Lexer.THEN; Lexer.ELSE; Lexer.DEBUG; Lexer.RETURN; Lexer.HEAD; Lexer.TAIL; Lexer.LOOP; Lexer.BREAK; Lexer.CONTINUE; Lexer.TRUE; Lexer.FALSE].

Definition lstate_name (s : lstate) : string :=
  match s with
  | SSTART => "SSTART"
  | SWHITESPACE => "SWHITESPACE"
  | SSTRING_DOUBLE => "SSTRING_DOUBLE"
  | SSTRING_SINGLE => "SSTRING_SINGLE"
  | SSTRING_END => "SSTRING_END"
  | SSTRING_D_ESCAPE => "SSTRING_D_ESCAPE"
  | SSTRING_S_ESCAPE => "SSTRING_S_ESCAPE"
  | SNUMBER => "SNUMBER"
  | SEQUAL_1 => "SEQUAL_1"
  | SDEQUAL => "SDEQUAL"
  | SEXCL => "SEXCL"
  | SNEQUAL => "SNEQUAL"
  | SCOLON => "SCOLON"
  | SCOLONEQ => "SCOLONEQ"
  | SIDENTIFIER => "SIDENTIFIER"
  | SCOMMA => "SCOMMA"
  | SOPENPAREN => "SOPENPAREN"
  | SCLOSEPAREN => "SCLOSEPAREN"
  | SOPENCURLY => "SOPENCURLY"
  | SCLOSECURLY => "SCLOSECURLY"
  | SCOMMENT => "SCOMMENT"
  | SCOMMENTSTART => "SCOMMENTSTART"
  | SBLOCKCOMMENT => "SBLOCKCOMMENT"
  | SBLOCKCOMMENTSTARTEND => "SBLOCKCOMMENTSTARTEND"
  | SBLOCKCOMMENTENDEND => "SBLOCKCOMMENTENDEND"
  | SBLOCKCOMMENTFINAL => "SBLOCKCOMMENTFINAL"
  | SDASH => "SDASH"
  | SOPERATOR => "SOPERATOR"
  | SOPERATORSTART => "SOPERATORSTART"
  | SREGEXP => "SREGEXP"
  | SREGEXP_BODY => "SREGEXP_BODY"
  | SERROR => "SERROR"
  | SEND => "SEND"
  end.

Definition all_states : list lstate :=
  [SSTART; SWHITESPACE; SSTRING_DOUBLE; SSTRING_SINGLE; SSTRING_END; SSTRING_D_ESCAPE; SSTRING_S_ESCAPE; SNUMBER; SEQUAL_1; SDEQUAL; SEXCL; SNEQUAL; SCOLON; SCOLONEQ; SIDENTIFIER; SCOMMA; SOPENPAREN; SCLOSEPAREN; SOPENCURLY; SCLOSECURLY; SCOMMENT; SCOMMENTSTART; SBLOCKCOMMENT; SBLOCKCOMMENTSTARTEND; SBLOCKCOMMENTENDEND; SBLOCKCOMMENTFINAL; SDASH; SOPERATOR; SOPERATORSTART; SREGEXP; SREGEXP_BODY; SERROR; SEND].

Definition string_of_bytes (b : bytes) : string := fold_right (fun c s => String (ascii_of_N c) s) EmptyString b.

Definition err_name (e : lexerr) : string :=
  match e with LEUnknownToken => "Unknown" | LEUnendingString => "String" | LEUnendingBlockComment => "BlockComment" | LEUnendingRegexp => "Regexp" end.

(* what the model's final switch does in a state: a fixed token type, a lex error, or a table lookup with a default *)
Definition final_class (st : lstate) : string :=
  match st with
  | SIDENTIFIER => "table:IDENTIFIER:keywords"
  | SOPERATORSTART | SOPERATOR => "table:ERROR:operators"
  | _ => match finish st [] with inl t => "tok:" ++ ttype_name (ttyp t) | inr e => "err:" ++ err_name e end
  end.

Fixpoint assoc (l : list (string * string)) (k : string) : option string :=
  match l with [] => None | (k', v) :: r => if String.eqb k' k then Some v else assoc r k end.

(* the two table states really are table lookups with those defaults, for every buffer *)
Theorem LexTables_table_states : forall buf,
  finish SIDENTIFIER buf = (match alookup keywords (map lower_ascii buf) with Some t => inl {| ttyp := t; lexeme := buf |} | None => inl {| ttyp := Lexer.IDENTIFIER; lexeme := buf |} end) /\
  finish SOPERATOR buf = (match alookup operators buf with Some t => inl {| ttyp := t; lexeme := buf |} | None => inr LEUnknownToken end) /\
  finish SOPERATORSTART buf = finish SOPERATOR buf /\
  (forall st, st <> SIDENTIFIER -> st <> SOPERATOR -> st <> SOPERATORSTART ->
     match finish st buf, finish st [] with
     | inl t, inl t0 => ttyp t = ttyp t0 /\ lexeme t = buf
     | inr e, inr e0 => e = e0
     | _, _ => False
     end).
Proof.
  intros buf. repeat split; try reflexivity.
  intros st H1 H2 H3. destruct st; try contradiction; cbn; auto.
Qed.
Print Assumptions LexTables_table_states.

Theorem LexTables_token_types : gen_ttypes = map ttype_name all_ttypes /\ forall t, In t all_ttypes.
Proof. split; [reflexivity|]. intros t. destruct t; cbn; tauto. Qed.
Print Assumptions LexTables_token_types.

Theorem LexTables_states : gen_states = map lstate_name all_states /\ forall s, In s all_states.
Proof. split; [reflexivity|]. intros s. destruct s; cbn; tauto. Qed.
Print Assumptions LexTables_states.

(* every state has a case in the source's final switch (its `default: panic` is unreachable), and the case does
   what the model's [finish] does *)
Theorem LexTables_final_switch : forall st, assoc gen_final (lstate_name st) = Some (final_class st).
Proof. intros st. destruct st; reflexivity. Qed.
Print Assumptions LexTables_final_switch.

Theorem LexTables_keywords : gen_keywords = map (fun '(b, t) => (string_of_bytes b, ttype_name t)) keywords.
Proof. reflexivity. Qed.
Print Assumptions LexTables_keywords.

(* the keys: a word is looked up in the keyword table in lower case (the model: map lower_ascii buf - ASCII letters, which is
   all the table's keys contain), an operator as it is written *)
Theorem LexTables_lookup_keys : gen_keyword_key = "strings.ToLower(buf.String())" /\ gen_operator_key = "buf.String()".
Proof. split; reflexivity. Qed.
Print Assumptions LexTables_lookup_keys.

Theorem LexTables_operators : gen_operators = map (fun '(b, t) => (string_of_bytes b, ttype_name t)) operators.
Proof. reflexivity. Qed.
Print Assumptions LexTables_operators.

(* the named escapes: what a backslash followed by a character stands for - the source's if-chain, branch for branch *)
Fixpoint esc_lookup (l : list (N * N)) (c : N) : N :=
  match l with [] => c | (k, v) :: r => if N.eqb c k then v else esc_lookup r c end.

Theorem LexTables_escapes : forall c, escaped_rune c = esc_lookup gen_escapes c.
Proof. intros c. reflexivity. Qed.
Print Assumptions LexTables_escapes.
