(* The documented operator / coercion tables of the process language
   (docs/language/LanguageDetails.md, "Type Coersion"), typed in row by row, and the declarative
   typing rules of expressions. *)
From Model Require Export Process.
Local Open Scope Z_scope.

Definition is_cmp (op : binop) : bool :=
  match op with ODEqual | ONEqual | OLess | OGreater | OLessEq | OGreaterEq => true | _ => false end.
Definition is_arith_noplus (op : binop) : bool :=
  match op with OMinus | OMult | ODiv | OMod => true | _ => false end.

(* the table: left type, operator, right type -> result type (None: "operator not defined") *)
Definition table (op : binop) (tl tr : ptype) : option ptype :=
  match tl with
  | TString =>
      match op with
      | OPlus => Some TString                                   (* string + _string_ *)
      | ODEqual | ONEqual | OLess | OGreater | OLessEq | OGreaterEq => Some TBoolean
      | OMinus | OMult | ODiv | OMod => match tr with TNumber => Some TNumber | _ => None end   (* _number_ op number *)
      | OAnd | OOr => None
      end
  | TBoolean =>
      match op with
      | OAnd | OOr | ODEqual | ONEqual | OLess | OGreater | OLessEq | OGreaterEq => Some TBoolean
      | _ => None
      end
  | TNumber =>
      match op with
      | ODEqual | ONEqual | OLess | OGreater | OLessEq | OGreaterEq => Some TBoolean
      | OPlus | OMinus | OMult | ODiv | OMod => Some TNumber
      | OAnd | OOr => None
      end
  end.

(* typed operations on operands already coerced to one type *)
Definition str_op (op : binop) (a b : bytes) : option pvalue :=
  match op with
  | OPlus => Some (PVStr (a ++ b))
  | ODEqual => Some (PVBool (bytes_eqb a b))
  | ONEqual => Some (PVBool (negb (bytes_eqb a b)))
  | OLess => Some (PVBool (bytes_ltb a b))
  | OGreater => Some (PVBool (bytes_ltb b a))
  | OLessEq => Some (PVBool (bytes_leb a b))
  | OGreaterEq => Some (PVBool (bytes_leb b a))
  | _ => None
  end.

Definition bool_op (op : binop) (a b : bool) : option pvalue :=
  match op with
  | OAnd => Some (PVBool (a && b))
  | OOr => Some (PVBool (a || b))
  | ODEqual => Some (PVBool (Bool.eqb a b))
  | ONEqual => Some (PVBool (negb (Bool.eqb a b)))
  | OLess => Some (PVBool (b2z a <? b2z b))          (* false < true *)
  | OGreater => Some (PVBool (b2z b <? b2z a))
  | OLessEq => Some (PVBool (b2z a <=? b2z b))
  | OGreaterEq => Some (PVBool (b2z b <=? b2z a))
  | _ => None
  end.

(* integer arithmetic: 64-bit two's complement, division truncating towards zero *)
Definition num_op (op : binop) (a b : Z) : option pvalue :=
  match op with
  | ODEqual => Some (PVBool (a =? b))
  | ONEqual => Some (PVBool (negb (a =? b)))
  | OLess => Some (PVBool (a <? b))
  | OGreater => Some (PVBool (b <? a))
  | OLessEq => Some (PVBool (a <=? b))
  | OGreaterEq => Some (PVBool (b <=? a))
  | OPlus => Some (PVNum (wrap64 (a + b)))
  | OMinus => Some (PVNum (wrap64 (a - b)))
  | OMult => Some (PVNum (wrap64 (a * b)))
  | ODiv => if b =? 0 then None else Some (PVNum (wrap64 (Z.quot a b)))
  | OMod => if b =? 0 then None else Some (PVNum (Z.rem a b))
  | _ => None
  end.

(* the documented meaning: the left operand's type selects the operation (a string is coerced to
   a number only for - * / % with a number on the right); the right operand is coerced to it *)
Definition spec_binop (op : binop) (l r : pvalue) : option pvalue :=
  match table op (pv_type l) (pv_type r) with
  | None => None
  | Some _ =>
      match pv_type l with
      | TString => if is_arith_noplus op then num_op op (get_number l) (get_number r)
                   else str_op op (get_string l) (get_string r)
      | TBoolean => bool_op op (get_boolean l) (get_boolean r)
      | TNumber => num_op op (get_number l) (get_number r)
      end
  end.

Definition spec_unop (op : unop) (v : pvalue) : option pvalue :=
  match op, pv_type v with
  | UNot, TBoolean => Some (PVBool (negb (get_boolean v)))
  | UHead, TString => Some (PVStr (firstn 1 (get_string v)))
  | UTail, TString => Some (PVStr (skipn 1 (get_string v)))
  | _, _ => None
  end.

(* ---- declarative typing of expressions ---- *)
Definition tyenv := list (name * ptype).

Inductive has_type (G : tyenv) : pexpr -> ptype -> Prop :=
| ht_str s : has_type G (PEStr s) TString
| ht_num n : has_type G (PENum n) TNumber
| ht_bool b : has_type G (PEBool b) TBoolean
| ht_var_known n t : alookup G n = Some t -> has_type G (PEVar n) t
| ht_var_unknown n : alookup G n = None -> has_type G (PEVar n) TString      (* unknown names are strings *)
| ht_bin op l r tl tr t : has_type G l tl -> has_type G r tr -> table op tl tr = Some t -> has_type G (PEBin op l r) t
| ht_not e : has_type G e TBoolean -> has_type G (PEUn UNot e) TBoolean
| ht_head e : has_type G e TString -> has_type G (PEUn UHead e) TString
| ht_tail e : has_type G e TString -> has_type G (PEUn UTail e) TString.
