(* The textbook meaning of a pattern: the LANGUAGE it denotes, a set of byte strings defined by
   structural rules (concatenation, union, bounded iteration, grammar rules for subroutines) with no
   notion of position, priority or backtracking.  Proofs/LangSound.v shows that the end positions of
   the specification's outcomes ([outs]) are exactly the p' with text[p:p'] in this language - for
   patterns without back-references, predicates and zero-width atoms. *)
From Spec Require Export Sem.

(* an atom reads the word w and nothing else: run on w alone it consumes all of it *)
Definition atom_word (i : instr) (w : bytes) : Prop := w <> [] /\ atom_pos w i 0 = Some (length w).

Definition is_prefix (u w : bytes) : Prop := exists v, w = u ++ v.

Section Lang.
Variable defs : nat -> option (rx * pstmts).

Inductive lang : rx -> bytes -> Prop :=
| l_eps : lang XEps []
| l_atom i w : atom_word i w -> lang (XAtom i) w
| l_seq a b u v : lang a u -> lang b v -> lang (XSeq a b) (u ++ v)
| l_alt_l a b w : lang a w -> lang (XAlt a b) w
| l_alt_r a b w : lang b w -> lang (XAlt a b) w
| l_in items i w : In i items -> atom_word i w -> lang (XIn items) w
  (* not in: mx bytes none of whose prefixes is a word of an item *)
| l_notin items mx w : length w = Z.to_nat mx -> w <> [] ->
    (forall i u, In i items -> atom_word i u -> ~ is_prefix u w) -> lang (XNotIn items mx) w
  (* between mn and mx non-empty words of the body (mx = -1: no upper bound), greedy or not *)
| l_loop id mn mx fw b ws : mn <= length ws -> within mx (length ws) = true ->
    Forall (fun w => lang b w /\ w <> []) ws -> lang (XLoop id mn mx fw [] b) (concat ws)
| l_dec n b w : lang b w -> lang (XDec n b) w                 (* a capture changes no word *)
| l_sub n b w : lang b w -> lang (XSub n b PNil) w             (* a subroutine defined in place *)
| l_call n t b w : defs t = Some (b, PNil) -> lang b w -> lang (XCall n t) w.   (* a grammar rule *)

End Lang.

(* atoms whose success depends only on the bytes they consume *)
Definition local_atom (i : instr) : Prop :=
  forall text p p', p <= length text ->
    (atom_pos text i p = Some p' <-> p < p' /\ p' <= length text /\ atom_word i (sub text p p')).

(* the patterns the theorem covers *)
Fixpoint pure (r : rx) : Prop :=
  match r with
  | XEps | XCall _ _ => True
  | XAtom i => local_atom i
  | XRef _ => False
  | XSeq a b | XAlt a b => pure a /\ pure b
  | XIn items => Forall local_atom items
  | XNotIn items mx => Forall local_atom items /\ (0 < mx)%Z /\
                       (forall i u, In i items -> atom_word i u -> length u <= Z.to_nat mx)
  | XLoop _ _ _ _ nm b => nm = [] /\ pure b
  | XDec _ b => pure b
  | XSub _ b pred => pred = PNil /\ pure b
  end.
