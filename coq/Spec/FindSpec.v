(* The specification of a find command: scan the text left to right; at each start offset take the
   first outcome (in priority order) of the pattern; a non-empty one is reported and the scan
   resumes at its end, otherwise the scan moves one byte on. *)
From Spec Require Export Sem.

(* subroutines defined inside r when r's code is laid out at pc o *)
Fixpoint subs_of (r : rx) (o : nat) : list (nat * (rx * pstmts)) :=
  match r with
  | XSeq a b => subs_of a o ++ subs_of b (o + rx_len a)
  | XAlt a b => subs_of a (o + 1) ++ subs_of b (o + 2 + rx_len a)
  | XLoop _ _ _ _ _ b | XDec _ b => subs_of b (o + 1)
  | XSub _ b pred => (o, (b, pred)) :: subs_of b (o + 1)
  | _ => []
  end.

Fixpoint nlookup {A} (l : list (nat * A)) (k : nat) : option A :=
  match l with [] => None | (k', v) :: r => if Nat.eqb k' k then Some v else nlookup r k end.

Definition defs_of (r : rx) : nat -> option (rx * pstmts) := nlookup (subs_of r 0).

Record span := { sp_start : nat; sp_end : nat; sp_env : env }.

Section Find.
Variable fuel : nat.
Variable r : rx.
Variable text : bytes.

(* None = the oracle ran out of fuel / a predicate crashed; Some None = no outcome *)
Definition first_outcome (start : nat) : option (option st) :=
  match outs_f text start (defs_of r) fuel r (start, []) with
  | None => None
  | Some [] => Some None
  | Some (q :: _) => Some (Some q)
  end.

Fixpoint spec_scan (n : nat) (off : nat) : option (list span) :=
  match n with
  | O => Some []
  | S n' =>
      if Nat.leb (length text) off then Some []
      else match first_outcome off with
           | None => None
           | Some (Some (e, v)) =>
               if Nat.ltb off e
               then match spec_scan n' e with
                    | Some l => Some ({| sp_start := off; sp_end := e; sp_env := v |} :: l)
                    | None => None
                    end
               else spec_scan n' (S off)
           | Some None => spec_scan n' (S off)
           end
  end.

Definition spec_find_all : option (list span) := spec_scan (S (length text)) 0.

End Find.
