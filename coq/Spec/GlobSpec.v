(* The meaning of a path segment pattern: `*` stands for any run of characters (possibly empty)
   within the segment; every other character stands for itself. *)
From Model Require Export Glob.

Inductive seg_match : bytes -> bytes -> Prop :=      (* pattern, name *)
| sm_nil : seg_match [] []
| sm_char c p t : c <> star -> seg_match p t -> seg_match (c :: p) (c :: t)
| sm_star0 p t : seg_match p t -> seg_match (star :: p) t
| sm_star1 p c t : seg_match (star :: p) t -> seg_match (star :: p) (c :: t).

(* a regular file of the tree, by the names of the directories leading to it and its own name *)
Inductive in_tree : list node -> list bytes -> bytes -> Prop :=
| it_file cs name : In (NFile name) cs -> in_tree cs [] name
| it_dir cs d sub ds name : In (NDir d sub) cs -> in_tree sub ds name -> in_tree cs (d :: ds) name.

(* the path of such a file below a prefix *)
Fixpoint join_path (prefix : bytes) (ds : list bytes) (name : bytes) : bytes :=
  match ds with
  | [] => prefix ++ [slash] ++ name
  | d :: r => join_path (prefix ++ [slash] ++ d) r name
  end.
