(* C15: the lexical elements a source is made of.  A source is a sequence of elements - tokens in
   one of their spellings, and separators (blank runs, line comments, block comments) - each of
   which the lexer must turn into exactly one token. *)
From Model Require Export Lexer.
From Spec Require Export StrSpec.
Local Open Scope N_scope.

Inductive punct :=
| KOpen | KClose | KOCurly | KCCurly | KComma | KPlus | KMult | KDiv | KMod
| KEq | KDEq | KNEq | KColonEq | KLess | KGreater | KLessEq | KGreaterEq | KMinus.

Definition punct_spell (k : punct) : list N :=
  match k with
  | KOpen => [40] | KClose => [41] | KOCurly => [123] | KCCurly => [125] | KComma => [44]
  | KPlus => [43] | KMult => [42] | KDiv => [47] | KMod => [37]
  | KEq => [61] | KDEq => [61; 61] | KNEq => [33; 61] | KColonEq => [58; 61]
  | KLess => [60] | KGreater => [62] | KLessEq => [60; 61] | KGreaterEq => [62; 61] | KMinus => [45]
  end.

Definition punct_type (k : punct) : ttype :=
  match k with
  | KOpen => OPENPAREN | KClose => CLOSEPAREN | KOCurly => OPENCURLY | KCCurly => CLOSECURLY | KComma => COMMA
  | KPlus => PLUS | KMult => MULT | KDiv => DIV | KMod => MOD
  | KEq => EQUAL | KDEq => DEQUAL | KNEq => NEQUAL | KColonEq => COLONEQ
  | KLess => LESS | KGreater => GREATER | KLessEq => LESSEQ | KGreaterEq => GREATEREQ | KMinus => MINUS
  end.

(* the one character that must not follow the token directly (it would be read as part of it) *)
Definition punct_glue (k : punct) : option N :=
  match k with KEq | KLess | KGreater => Some 61 | KMinus => Some 45 | _ => None end.

Inductive lexel :=
| LPunct (k : punct)
| LWord (w : list N)              (* a keyword in any letter case, or an identifier *)
| LNum (ds : list N)
| LStr (q : N) (ps : list piece)
| LRegex (body : list N)
| LBlank (ws : list N)            (* a maximal run of blanks, tabs, newlines *)
| LBlock (body : list N)          (* --( body )-- *)
| LLine (body : list N).          (* -- body, up to (not including) the end of the line *)

Definition is_alnum (c : N) : bool := is_digit_r c || is_letter_r c.

Definition spell_el (e : lexel) : list N :=
  match e with
  | LPunct k => punct_spell k
  | LWord w => w
  | LNum ds => ds
  | LStr q ps => q :: spell_all ps ++ [q]
  | LRegex body => 64 :: 47 :: body ++ [47]
  | LBlank ws => ws
  | LBlock body => 45 :: 45 :: 40 :: body ++ [41; 45; 45]
  | LLine body => 45 :: 45 :: body
  end.

Definition word_type (w : list N) : ttype :=
  match alookup keywords (map lower_ascii w) with Some t => t | None => IDENTIFIER end.

Definition enc_all (l : list N) : bytes := flat_map encode_rune l.

Definition tok_el (e : lexel) : token :=
  match e with
  | LPunct k => {| ttyp := punct_type k; lexeme := punct_spell k |}
  | LWord w => {| ttyp := word_type w; lexeme := w |}
  | LNum ds => {| ttyp := NUMBER; lexeme := ds |}
  | LStr q ps => {| ttyp := STRING; lexeme := map denote ps |}
  | LRegex body => {| ttyp := REGEXP; lexeme := enc_all body |}
  | LBlank ws => {| ttyp := WS; lexeme := enc_all ws |}
  | LBlock body => {| ttyp := COMMENT; lexeme := enc_all (45 :: 45 :: 40 :: body ++ [41; 45; 45]) |}
  | LLine body => {| ttyp := COMMENT; lexeme := enc_all (45 :: 45 :: body) |}
  end.

(* the block-comment automaton: how many characters until the first ")--" is complete *)
Definition bc_next (st : lstate) (c : N) : lstate :=
  match st with
  | SBLOCKCOMMENT => if c =? 41 then SBLOCKCOMMENTSTARTEND else SBLOCKCOMMENT
  | SBLOCKCOMMENTSTARTEND => if c =? 45 then SBLOCKCOMMENTENDEND else if c =? 41 then SBLOCKCOMMENTSTARTEND else SBLOCKCOMMENT
  | SBLOCKCOMMENTENDEND => if c =? 45 then SBLOCKCOMMENTFINAL else if c =? 41 then SBLOCKCOMMENTSTARTEND else SBLOCKCOMMENT
  | s => s
  end.

Fixpoint bc_scan (st : lstate) (l : list N) : option nat :=
  match l with
  | [] => None
  | c :: r => if lstate_eqb (bc_next st c) SBLOCKCOMMENTFINAL then Some 1%nat
              else match bc_scan (bc_next st c) r with Some n => Some (S n) | None => None end
  end.

Definition nonzero (l : list N) : Prop := Forall (fun c => c <> 0) l.

(* what may follow an element directly: [next] is everything after it (empty = end of input) *)
Definition head_not (P : N -> bool) (next : list N) : Prop :=
  match next with [] => True | c :: _ => P c = false end.

Definition valid_el (e : lexel) (next : list N) : Prop :=
  match e with
  | LPunct k => match punct_glue k with Some g => head_not (N.eqb g) next | None => True end
  | LWord w => (exists c r, w = c :: r /\ is_letter_r c = true /\ Forall (fun x => is_alnum x = true) r) /\ head_not is_alnum next
  | LNum ds => ds <> [] /\ Forall (fun x => is_digit_r x = true) ds /\ head_not is_digit_r next
  | LStr q ps => (q = 34 \/ q = 39) /\ valid q ps (q :: next)
  | LRegex body => Forall (fun c => c <> 47 /\ c <> 0) body
  | LBlank ws => ws <> [] /\ Forall (fun x => is_space x = true) ws /\ head_not is_space next
  | LBlock body => nonzero body /\ bc_scan SBLOCKCOMMENT (body ++ [41; 45; 45]) = Some (length body + 3)%nat
  | LLine body => Forall (fun c => c <> 10 /\ c <> 0) body /\ head_not (N.eqb 40) body /\
                  match next with [] => True | c :: _ => c = 10 end
  end.

Definition render (els : list lexel) : list N := flat_map spell_el els.

Fixpoint valid_stream (els : list lexel) : Prop :=
  match els with
  | [] => True
  | e :: r => valid_el e (render r) /\ valid_stream r
  end.

Definition eof_token : token := {| ttyp := EOF; lexeme := [] |}.

Definition is_sep (e : lexel) : bool := match e with LBlank _ | LBlock _ | LLine _ => true | _ => false end.
