(* C14: the regular expressions of the supported subset as a syntax tree, how each is written, and
   the pattern tree it denotes.  The grammar is the one the documentation gives: a regex is a
   sequence of patterns; a pattern is an item, or an alternation item|pattern of single items; an
   item is ^, $ or an atom with an optional quantifier (lazy with a trailing ?). *)
From Model Require Export Parser.
Local Open Scope N_scope.

Inductive citem := CChar (c : N) | CRange (a b : N).

Inductive quant :=
| QStar | QPlus | QOpt
| QExact (ds : bytes)            (* {m} : the digits of m *)
| QAtLeast (ds : bytes)          (* {m,} *)
| QRange (ds1 ds2 : bytes).      (* {m,n} *)

Inductive gkind := GNum | GNon | GNamed (id : bytes).

Inductive ratom :=
| RChar (c : N)                  (* an ordinary character *)
| REscChar (c : N)               (* backslash + a character without special meaning *)
| RDot
| RCls (neg : bool) (space : bool)   (* \d \D \s \S *)
| RBracket (neg : bool) (items : list citem)
| RBackNum (d : N)               (* \1 .. \9 *)
| RBackNum2 (d1 d2 : N)          (* \10 .. \99 *)
| RBackName (id : bytes)         (* \k<id> *)
| RGroup (k : gkind) (body : rdis)
with rlit :=
| RBol | REol
| RQ (a : ratom) (q : option (quant * bool))
with rpat :=
| POne (l : rlit)
| PAlt (l : rlit) (r : rpat)
with rdis :=
| DNil
| DCons (p : rpat) (d : rdis).

Scheme ratom_mut := Induction for ratom Sort Prop
  with rlit_mut := Induction for rlit Sort Prop
  with rpat_mut := Induction for rpat Sort Prop
  with rdis_mut := Induction for rdis Sort Prop.
Combined Scheme regex_mutind from ratom_mut, rlit_mut, rpat_mut, rdis_mut.

(* ---- how it is written ---- *)
Definition show_quant (q : quant) : list N :=
  match q with
  | QStar => [42] | QPlus => [43] | QOpt => [63]
  | QExact ds => 123 :: ds ++ [125]
  | QAtLeast ds => 123 :: ds ++ [44; 125]
  | QRange d1 d2 => 123 :: d1 ++ 44 :: d2 ++ [125]
  end.

Definition show_q (q : option (quant * bool)) : list N :=
  match q with None => [] | Some (qq, lz) => show_quant qq ++ (if lz then [63] else []) end.

Definition show_item (c : citem) : list N := match c with CChar x => [x] | CRange a b => [a; 45; b] end.

Fixpoint show_atom (a : ratom) : list N :=
  match a with
  | RChar c => [c]
  | REscChar c => [92; c]
  | RDot => [46]
  | RCls neg space => [92; if space then (if neg then 83 else 115) else (if neg then 68 else 100)]
  | RBracket neg items => 91 :: (if neg then [94] else []) ++ flat_map show_item items ++ [93]
  | RBackNum d => [92; d]
  | RBackNum2 d1 d2 => [92; d1; d2]
  | RBackName id => 92 :: 107 :: 60 :: id ++ [62]
  | RGroup k body =>
      40 :: (match k with GNum => [] | GNon => [63; 58] | GNamed id => 63 :: 60 :: id ++ [62] end) ++ show_disj body ++ [41]
  end
with show_lit (l : rlit) : list N :=
  match l with RBol => [94] | REol => [36] | RQ a q => show_atom a ++ show_q q end
with show_pat (p : rpat) : list N :=
  match p with POne l => show_lit l | PAlt l r => show_lit l ++ 124 :: show_pat r end
with show_disj (d : rdis) : list N :=
  match d with DNil => [] | DCons p r => show_pat p ++ show_disj r end.

(* ---- what it denotes ---- *)
Definition quant_bounds (q : quant) : option (nat * Z) :=
  match q with
  | QStar => Some (0%nat, (-1)%Z) | QPlus => Some (1%nat, (-1)%Z) | QOpt => Some (0%nat, 1%Z)
  | QExact ds => match atoi_int ds with Some v => Some (v, Z.of_nat v) | None => None end
  | QAtLeast ds => match atoi_int ds with Some v => Some (v, (-1)%Z) | None => None end
  | QRange d1 d2 => match atoi_int d1, atoi_int d2 with Some a, Some b => Some (a, Z.of_nat b) | _, _ => None end
  end.

Definition tr_item (c : citem) : listable :=
  match c with CChar x => LiStr false false (encode_rune x) | CRange a b => LiRange (encode_rune a) (encode_rune b) end.

Definition apply_q (q : option (quant * bool)) (body : expr) : expr :=
  match q with
  | None => body
  | Some (qq, lz) => match quant_bounds qq with Some (mn, mx) => ELoop mn mx lz [] body | None => body end
  end.

Fixpoint tr_atom (a : ratom) (g : nat) : expr * nat :=
  match a with
  | RChar c | REscChar c => (EPrim (LStr false false (encode_rune c)), g)
  | RDot => (EPrim (LStr true false [10]), g)
  | RCls neg space => (EPrim (LClass neg (if space then CWhitespace else CDigit)), g)
  | RBracket neg items => (EList neg (map tr_item items), g)
  | RBackNum d => (EPrim (LVar [underscore; d]), g)
  | RBackNum2 d1 d2 => (EPrim (LVar [underscore; d1; d2]), g)
  | RBackName id => (EPrim (LVar id), g)
  | RGroup GNon body => let '(es, g1) := tr_disj body g in (EPrim (LSubExpr es), g1)
  | RGroup (GNamed id) body =>
      let '(es, g1) := tr_disj body g in (EPrim (LSubExpr (ECons (EDec id (LSubExpr es)) ENil)), g1)
  | RGroup GNum body =>
      let gn := S g in
      let '(es, g1) := tr_disj body gn in
      (EPrim (LSubExpr (ECons (EDec (underscore :: itoa_bytes gn) (LSubExpr es)) ENil)), g1)
  end
with tr_lit (l : rlit) (g : nat) : expr * nat :=
  match l with
  | RBol => (EPrim (LClass false CLineStart), g)
  | REol => (EPrim (LClass false CLineEnd), g)
  | RQ a q => let '(b, g1) := tr_atom a g in (apply_q q b, g1)
  end
with tr_pat (p : rpat) (g : nat) : expr * nat :=
  match p with
  | POne l => tr_lit l g
  | PAlt l r => let '(s, g1) := tr_lit l g in let '(e, g2) := tr_pat r g1 in (EBranch (LSubExpr (ECons s ENil)) e, g2)
  end
with tr_disj (d : rdis) (g : nat) : exprs * nat :=
  match d with
  | DNil => (ENil, g)
  | DCons p r => let '(e, g1) := tr_pat p g in let '(es, g2) := tr_disj r g1 in (ECons e es, g2)
  end.

(* ---- well-formedness: which trees are written unambiguously ---- *)
Definition special (c : N) : bool :=
  existsb (N.eqb c) [0; 94; 36; 92; 40; 41; 91; 46; 124; 42; 43; 63; 123; 47].

Definition esc_meaning (c : N) : bool :=
  ((49 <=? c) && (c <=? 57)) || existsb (N.eqb c) [100; 68; 115; 83; 119; 87; 98; 66; 107; 0; 47].

Definition class_char (c : N) : bool := negb (existsb (N.eqb c) [0; 93; 92; 45; 47]).

Definition digits_ok (ds : bytes) : Prop :=
  ds <> [] /\ Forall (fun d => is_digit_r d = true) ds /\ exists v, atoi_int ds = Some v.

Definition quant_ok (q : quant) : Prop :=
  match q with
  | QStar | QPlus | QOpt => True
  | QExact ds | QAtLeast ds => digits_ok ds
  | QRange d1 d2 => digits_ok d1 /\ digits_ok d2
  end.

Definition ident_ok (id : bytes) : Prop := Forall (fun c => (is_digit_r c || is_letter_r c)%bool = true) id.

Definition item_ok (c : citem) : Prop :=
  match c with CChar x => class_char x = true | CRange a b => class_char a = true /\ class_char b = true end.

Definition item_first (c : citem) : N := match c with CChar x => x | CRange a _ => a end.

Definition starts_digit (l : list N) : bool := match l with c :: _ => is_digit_r c | [] => false end.

(* [after] is what follows the construct in the regex (needed only for \d followed by a digit) *)
Fixpoint wf_atom (a : ratom) : Prop :=
  match a with
  | RChar c => special c = false
  | REscChar c => esc_meaning c = false
  | RDot | RCls _ _ => True
  | RBracket neg items => items <> [] /\ Forall item_ok items /\
                          (neg = false -> match items with c :: _ => item_first c <> 94 | [] => True end)
  | RBackNum d => (49 <=? d) && (d <=? 57) = true
  | RBackNum2 d1 d2 => (49 <=? d1) && (d1 <=? 57) = true /\ (48 <=? d2) && (d2 <=? 57) = true
  | RBackName id => ident_ok id
  | RGroup k body => (match k with GNamed id => ident_ok id | _ => True end) /\ wf_disj body [41]
  end
with wf_lit (l : rlit) (after : list N) : Prop :=
  match l with
  | RBol | REol => True
  | RQ a q => wf_atom a /\
              (match q with Some (qq, _) => quant_ok qq | None => True end) /\
              (match a, q with RBackNum _, None => starts_digit after = false | _, _ => True end)
  end
with wf_pat (p : rpat) (after : list N) : Prop :=
  match p with
  | POne l => wf_lit l after
  | PAlt l r => wf_lit l (124 :: show_pat r ++ after) /\ wf_pat r after
  end
with wf_disj (d : rdis) (after : list N) : Prop :=
  match d with
  | DNil => True
  | DCons p r => wf_pat p (show_disj r ++ after) /\ wf_disj r after
  end.
