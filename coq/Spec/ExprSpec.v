(* C11 (precedence and associativity): how a transform expression may be written.  Operators bind
   as the documentation orders them (and/or < == != < comparisons < + - < * / %, unary operators
   tighter than all), binary operators associate to the left; parentheses are needed exactly where
   that reading would otherwise give another tree, and are allowed anywhere. *)
From Model Require Export Parser.

Definition binop_tok (op : binop) : ttype :=
  match op with
  | OAnd => AND | OOr => OR | OPlus => PLUS | OMinus => MINUS | OMult => MULT | ODiv => DIV | OMod => MOD
  | OLess => LESS | OGreater => GREATER | OLessEq => LESSEQ | OGreaterEq => GREATEREQ | ODEqual => DEQUAL | ONEqual => NEQUAL
  end.

Definition unop_tok (op : unop) : ttype := match op with UNot => NOT | UHead => HEAD | UTail => TAIL end.

(* the binding strength of an operator to its left and to its right (left < right: left associative) *)
Definition lp (op : binop) : nat :=
  match op with OAnd | OOr => 1 | ODEqual | ONEqual => 3 | OLess | OGreater | OLessEq | OGreaterEq => 5
              | OPlus | OMinus => 7 | OMult | ODiv | OMod => 9 end.
Definition rp (op : binop) : nat := S (lp op).
Definition urp (op : unop) : nat := match op with UNot => 11 | UHead | UTail => 12 end.

Definition top_lp (e : pexpr) : nat := match e with PEBin op _ _ => lp op | _ => 100 end.
Definition top_rp (e : pexpr) : nat := match e with PEBin op _ _ => rp op | _ => 100 end.

(* the token of an operand without sub-expressions *)
Definition atom_tok (e : pexpr) (t : token) : Prop :=
  match e with
  | PEStr s => ttyp t = STRING /\ lexeme t = s
  | PEBool true => ttyp t = TRUE
  | PEBool false => ttyp t = FALSE
  | PENum v => ttyp t = NUMBER /\ exists n, atoi_int (lexeme t) = Some n /\ v = Z.of_nat n
  | PEVar n => ttyp t = IDENTIFIER /\ lexeme t = n
  | _ => False
  end.

(* [written e b k ts]: ts is a way of writing e as an operand that must bind at least as strongly as b;
   an operator binding weaker than k may follow it directly.  [bare e ts]: without parentheses around the whole. *)
Inductive written : pexpr -> nat -> nat -> list token -> Prop :=
| w_paren e b k ts o c : written e 0 k ts -> ttyp o = OPENPAREN -> ttyp c = CLOSEPAREN -> written e b 100 (o :: ts ++ [c])
| w_bare e b ts : b <= top_lp e -> bare e ts -> written e b (top_rp e) ts
with bare : pexpr -> list token -> Prop :=
| b_atom e t : atom_tok e t -> bare e [t]
| b_un op e k ts t : ttyp t = unop_tok op -> written e (urp op) k ts -> bare (PEUn op e) (t :: ts)
| b_bin op l r kl kr tl tr t : ttyp t = binop_tok op -> written l (lp op) kl tl -> written r (rp op) kr tr ->
                               bare (PEBin op l r) (tl ++ t :: tr).

Scheme written_mut := Induction for written Sort Prop
  with bare_mut := Induction for bare Sort Prop.
Combined Scheme written_mutind from written_mut, bare_mut.
