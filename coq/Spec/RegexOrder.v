(* C14: the ORDER in which a backtracking engine tries the ways a regular expression can match at a
   position - written on the syntax of Spec/RegexSpec.v, with no reference to vore patterns, bytecode
   or the ordered-outcomes semantics of Spec/Sem.v.

   [rd_ord text d p l] : l is the list of END POSITIONS of the matches of d starting at p, in the
   order a conventional (Perl/PCRE-style) backtracking matcher finds them:
     - a one-byte atom has at most one end, p+1;
     - a concatenation tries, for every end of its first part IN ORDER, every end of the rest;
     - l|r tries everything of l before anything of r;
     - a greedy quantifier x{m,n} with c iterations done: must iterate while c < m; while it may
       iterate (c < n, or n unbounded) it first tries one more iteration from every end of x, and only
       then stops here; at c = n it stops.  A lazy quantifier stops here first and iterates afterwards.
   The first element of the list is the match the engine reports for the start offset p. *)
From Spec Require Export RegexLang.
From Model Require Import Rx.
Local Open Scope nat_scope.

Section Order.
Variable text : bytes.

Definition step1 (f : N -> bool) (p : nat) : list nat :=
  match nth_error text p with Some b => if f b then [p + 1] else [] | None => [] end.

Definition dot_ok (b : N) : bool := negb (N.eqb b 10).

(* ^ : at the start of the text or just behind a newline.  $ : at the end of the text or just before a newline
   (vore also accepts the position before a carriage return + newline pair; C14 is about texts without \r) *)
Definition at_bol (p : nat) : bool :=
  Nat.eqb p 0 || match nth_error text (p - 1) with Some b => N.eqb b 10 | None => false end.
Definition at_eol (p : nat) : bool :=
  Nat.eqb p (length text) ||
  match nth_error text p with
  | Some b => N.eqb b 10 || (N.eqb b 13 && match nth_error text (p + 1) with Some b2 => N.eqb b2 10 | None => false end)
  | None => false
  end.

Inductive ra_ord : ratom -> nat -> list nat -> Prop :=
| ro_char c p : ra_ord (RChar c) p (step1 (N.eqb c) p)
| ro_esc c p : ra_ord (REscChar c) p (step1 (N.eqb c) p)
| ro_dot p : ra_ord RDot p (step1 dot_ok p)
| ro_cls neg space p : ra_ord (RCls neg space) p (step1 (fun b => xorb (cls_has space b) neg) p)
| ro_bracket neg items p : ra_ord (RBracket neg items) p (step1 (fun b => xorb (existsb (item_has b) items) neg) p)
| ro_group k body p l : rd_ord body p l -> ra_ord (RGroup k body) p l
with rl_ord : rlit -> nat -> list nat -> Prop :=
| ro_bol p : rl_ord RBol p (if at_bol p then [p] else [])
| ro_eol p : rl_ord REol p (if at_eol p then [p] else [])
| ro_plain a p l : ra_ord a p l -> rl_ord (RQ a None) p l
| ro_quant a q lz mn mx p l : quant_bounds q = Some (mn, mx) -> rq_ord a mn mx lz 0 p l -> rl_ord (RQ a (Some (q, lz))) p l
with rp_ord : rpat -> nat -> list nat -> Prop :=
| ro_one l p r : rl_ord l p r -> rp_ord (POne l) p r
| ro_alt l r p la lb : rl_ord l p la -> rp_ord r p lb -> rp_ord (PAlt l r) p (la ++ lb)
with rd_ord : rdis -> nat -> list nat -> Prop :=
| ro_nil p : rd_ord DNil p [p]
| ro_cons x d p la lb : rp_ord x p la -> rd_each d la lb -> rd_ord (DCons x d) p lb
(* the rest of a concatenation from every end of its first part, in order *)
with rd_each : rdis -> list nat -> list nat -> Prop :=
| re_nil d : rd_each d [] []
| re_cons d p ps l1 l2 : rd_ord d p l1 -> rd_each d ps l2 -> rd_each d (p :: ps) (l1 ++ l2)
(* a quantified atom with c iterations done *)
with rq_ord : ratom -> nat -> Z -> bool -> nat -> nat -> list nat -> Prop :=
| rq_must a mn mx lz c p la l : c < mn -> ra_ord a p la -> rq_each a mn mx lz (S c) la l -> rq_ord a mn mx lz c p l
| rq_greedy a mn mx c p la l : mn <= c -> within mx (S c) = true -> ra_ord a p la -> rq_each a mn mx false (S c) la l ->
                               rq_ord a mn mx false c p (l ++ [p])
| rq_lazy a mn mx c p la l : mn <= c -> within mx (S c) = true -> ra_ord a p la -> rq_each a mn mx true (S c) la l ->
                             rq_ord a mn mx true c p (p :: l)
| rq_full a mn mx lz c p : mn <= c -> within mx (S c) = false -> rq_ord a mn mx lz c p [p]
with rq_each : ratom -> nat -> Z -> bool -> nat -> list nat -> list nat -> Prop :=
| rqe_nil a mn mx lz c : rq_each a mn mx lz c [] []
| rqe_cons a mn mx lz c p ps l1 l2 : rq_ord a mn mx lz c p l1 -> rq_each a mn mx lz c ps l2 -> rq_each a mn mx lz c (p :: ps) (l1 ++ l2).

(* `find all`: leftmost first; at each start offset the first end in the engine's order; an empty match
   is not reported; the search resumes at the end of a reported match, one byte further otherwise *)
Inductive rscan (d : rdis) : nat -> list (nat * nat) -> Prop :=
| rs_end off : length text <= off -> rscan d off []
| rs_hit off l e rest : off < length text -> rd_ord d off l -> hd_error l = Some e -> off < e ->
                        rscan d e rest -> rscan d off ((off, e) :: rest)
| rs_skip off l rest : off < length text -> rd_ord d off l -> (l = [] \/ hd_error l = Some off) ->
                       rscan d (S off) rest -> rscan d off rest.

End Order.

(* The expressions the order theorems cover: everything of the supported subset but back-references -
   characters (ASCII), `.`, \d \s classes, bracket classes (non-empty, ASCII, and, when not negated, listing
   no byte twice: an overlapping class like [aa-c] makes the engine's alternatives repeat a position, which
   cannot change what is found first but makes the lists differ), groups of all three kinds, ^ and $,
   quantifiers with m <= n over atoms that cannot match the empty string (the property's proviso), here in
   its syntactic form [nn_atom]: the usual non-nullability of a regular expression. *)
Fixpoint hits (b : N) (items : list citem) : nat :=
  match items with [] => 0 | c :: r => (if item_has b c then 1 else 0) + hits b r end.

Fixpoint nn_atom (a : ratom) : bool :=
  match a with
  | RGroup _ body => nn_disj body
  | RBackNum _ | RBackNum2 _ _ | RBackName _ => false
  | _ => true
  end
with nn_lit (l : rlit) : bool :=
  match l with
  | RBol | REol => false
  | RQ a None => nn_atom a
  | RQ a (Some (q, _)) => nn_atom a && match quant_bounds q with Some (mn, _) => Nat.ltb 0 mn | None => false end
  end
with nn_pat (p : rpat) : bool :=
  match p with POne l => nn_lit l | PAlt l r => nn_lit l && nn_pat r end
with nn_disj (d : rdis) : bool :=
  match d with DNil => false | DCons p r => nn_pat p || nn_disj r end.

Fixpoint oreg_atom (a : ratom) : Prop :=
  match a with
  | RChar c | REscChar c => (c < 128)%N
  | RDot | RCls _ _ => True
  | RBracket neg items => items <> [] /\ Forall item_ascii items /\ (neg = false -> forall b, hits b items <= 1)
  | RBackNum _ | RBackNum2 _ _ | RBackName _ => False
  | RGroup _ body => oreg_disj body
  end
with oreg_lit (l : rlit) : Prop :=
  match l with
  | RBol | REol => True
  | RQ a None => oreg_atom a
  | RQ a (Some (q, _)) => oreg_atom a /\ nn_atom a = true /\
                          exists mn mx, quant_bounds q = Some (mn, mx) /\ (mx = -1 \/ Z.of_nat mn <= mx)%Z
  end
with oreg_pat (p : rpat) : Prop :=
  match p with POne l => oreg_lit l | PAlt l r => oreg_lit l /\ oreg_pat r end
with oreg_disj (d : rdis) : Prop :=
  match d with DNil => True | DCons p r => oreg_pat p /\ oreg_disj r end.
