(* C14: the ORDER in which a backtracking engine tries the ways a regular expression can match at a
   position - written on the syntax of Spec/RegexSpec.v, with no reference to vore patterns, bytecode
   or the ordered-outcomes semantics of Spec/Sem.v.

   [rd_ord text d p l] : l is the list of END POSITIONS of the matches of d starting at p, in the
   order a conventional (Perl/PCRE-style) backtracking matcher finds them:
     - a one-byte atom has at most one end, p+1;
     - a concatenation tries, for every end of its first part IN ORDER, every end of the rest;
     - l|r tries everything of l before anything of r;
     - a greedy quantifier x{m,n} with c iterations done: must iterate while c < m; while it may
       iterate (c < n, or n unbounded) it first tries one more iteration from every end of x, and only
       then stops here; at c = n it stops.  A lazy quantifier stops here first and iterates afterwards.
   The first element of the list is the match the engine reports for the start offset p. *)
From Spec Require Export RegexLang.
From Model Require Import Rx.
Local Open Scope nat_scope.

Section Order.
Variable text : bytes.

Definition step1 (f : N -> bool) (p : nat) : list nat :=
  match nth_error text p with Some b => if f b then [p + 1] else [] | None => [] end.

Definition dot_ok (b : N) : bool := negb (N.eqb b 10).

Inductive ra_ord : ratom -> nat -> list nat -> Prop :=
| ro_char c p : ra_ord (RChar c) p (step1 (N.eqb c) p)
| ro_esc c p : ra_ord (REscChar c) p (step1 (N.eqb c) p)
| ro_dot p : ra_ord RDot p (step1 dot_ok p)
| ro_cls neg space p : ra_ord (RCls neg space) p (step1 (fun b => xorb (cls_has space b) neg) p)
| ro_bracket neg items p : ra_ord (RBracket neg items) p (step1 (fun b => xorb (existsb (item_has b) items) neg) p)
| ro_group k body p l : rd_ord body p l -> ra_ord (RGroup k body) p l
with rl_ord : rlit -> nat -> list nat -> Prop :=
| ro_plain a p l : ra_ord a p l -> rl_ord (RQ a None) p l
| ro_quant a q lz mn mx p l : quant_bounds q = Some (mn, mx) -> rq_ord a mn mx lz 0 p l -> rl_ord (RQ a (Some (q, lz))) p l
with rp_ord : rpat -> nat -> list nat -> Prop :=
| ro_one l p r : rl_ord l p r -> rp_ord (POne l) p r
| ro_alt l r p la lb : rl_ord l p la -> rp_ord r p lb -> rp_ord (PAlt l r) p (la ++ lb)
with rd_ord : rdis -> nat -> list nat -> Prop :=
| ro_nil p : rd_ord DNil p [p]
| ro_cons x d p la lb : rp_ord x p la -> rd_each d la lb -> rd_ord (DCons x d) p lb
(* the rest of a concatenation from every end of its first part, in order *)
with rd_each : rdis -> list nat -> list nat -> Prop :=
| re_nil d : rd_each d [] []
| re_cons d p ps l1 l2 : rd_ord d p l1 -> rd_each d ps l2 -> rd_each d (p :: ps) (l1 ++ l2)
(* a quantified atom with c iterations done *)
with rq_ord : ratom -> nat -> Z -> bool -> nat -> nat -> list nat -> Prop :=
| rq_must a mn mx lz c p la l : c < mn -> ra_ord a p la -> rq_each a mn mx lz (S c) la l -> rq_ord a mn mx lz c p l
| rq_greedy a mn mx c p la l : mn <= c -> within mx (S c) = true -> ra_ord a p la -> rq_each a mn mx false (S c) la l ->
                               rq_ord a mn mx false c p (l ++ [p])
| rq_lazy a mn mx c p la l : mn <= c -> within mx (S c) = true -> ra_ord a p la -> rq_each a mn mx true (S c) la l ->
                             rq_ord a mn mx true c p (p :: l)
| rq_full a mn mx lz c p : mn <= c -> within mx (S c) = false -> rq_ord a mn mx lz c p [p]
with rq_each : ratom -> nat -> Z -> bool -> nat -> list nat -> list nat -> Prop :=
| rqe_nil a mn mx lz c : rq_each a mn mx lz c [] []
| rqe_cons a mn mx lz c p ps l1 l2 : rq_ord a mn mx lz c p l1 -> rq_each a mn mx lz c ps l2 -> rq_each a mn mx lz c (p :: ps) (l1 ++ l2).

(* `find all`: leftmost first; at each start offset the first end in the engine's order; an empty match
   is not reported; the search resumes at the end of a reported match, one byte further otherwise *)
Inductive rscan (d : rdis) : nat -> list (nat * nat) -> Prop :=
| rs_end off : length text <= off -> rscan d off []
| rs_hit off l e rest : off < length text -> rd_ord d off l -> hd_error l = Some e -> off < e ->
                        rscan d e rest -> rscan d off ((off, e) :: rest)
| rs_skip off l rest : off < length text -> rd_ord d off l -> (l = [] \/ hd_error l = Some off) ->
                       rscan d (S off) rest -> rscan d off rest.

End Order.

(* the expressions the order theorem covers: regular expressions proper (Spec/RegexLang.v) whose bracket
   classes do not list a byte twice (an overlapping class like [aa-c] makes the engine's alternatives
   repeat a position; the repetition cannot change what is found first, but the lists differ) *)
Fixpoint hits (b : N) (items : list citem) : nat :=
  match items with [] => 0 | c :: r => (if item_has b c then 1 else 0) + hits b r end.

Fixpoint ord_atom (a : ratom) : Prop :=
  match a with
  | RBracket false items => forall b, hits b items <= 1
  | RGroup _ body => ord_disj body
  | _ => True
  end
with ord_lit (l : rlit) : Prop :=
  match l with RQ a _ => ord_atom a | _ => True end
with ord_pat (p : rpat) : Prop :=
  match p with POne l => ord_lit l | PAlt l r => ord_lit l /\ ord_pat r end
with ord_disj (d : rdis) : Prop :=
  match d with DNil => True | DCons p r => ord_pat p /\ ord_disj r end.
