(* C14: the LANGUAGE of a regular expression - the textbook reading of the syntax of Spec/RegexSpec.v:
   a character stands for itself, `.` for any byte but newline, \d \s and bracket classes for one byte
   of the class, a group for the language of its body, x{m,n} for m..n words of x in a row, a|b for
   the union, juxtaposition for concatenation.  No positions, priorities or backtracking. *)
From Spec Require Export RegexSpec.
From Model Require Import Rx.
Local Open Scope N_scope.

Definition item_has (b : N) (c : citem) : bool :=
  match c with CChar x => b =? x | CRange lo hi => (lo <=? b) && (b <=? hi) end.

Definition cls_has (space : bool) (b : N) : bool :=
  if space then (b =? 32) || (b =? 9) || (b =? 10) || (b =? 13) else (48 <=? b) && (b <=? 57).

Inductive ra_lang : ratom -> bytes -> Prop :=
| rl_char c : ra_lang (RChar c) [c]
| rl_esc c : ra_lang (REscChar c) [c]
| rl_dot b : b <> 10 -> ra_lang RDot [b]
| rl_cls neg space b : xorb (cls_has space b) neg = true -> ra_lang (RCls neg space) [b]
| rl_bracket neg items b : xorb (existsb (item_has b) items) neg = true -> ra_lang (RBracket neg items) [b]
| rl_group k body w : rd_lang body w -> ra_lang (RGroup k body) w
with rl_lang : rlit -> bytes -> Prop :=
| rl_plain a w : ra_lang a w -> rl_lang (RQ a None) w
| rl_quant a q lz mn mx ws : quant_bounds q = Some (mn, mx) ->
    (mn <= length ws)%nat -> within mx (length ws) = true -> Forall (ra_lang a) ws ->
    rl_lang (RQ a (Some (q, lz))) (concat ws)
with rp_lang : rpat -> bytes -> Prop :=
| rl_one l w : rl_lang l w -> rp_lang (POne l) w
| rl_alt_l l r w : rl_lang l w -> rp_lang (PAlt l r) w
| rl_alt_r l r w : rp_lang r w -> rp_lang (PAlt l r) w
with rd_lang : rdis -> bytes -> Prop :=
| rl_nil : rd_lang DNil []
| rl_cons p d u v : rp_lang p u -> rd_lang d v -> rd_lang (DCons p d) (u ++ v).

(* the regular expressions proper: no anchors, no back-references, ASCII; quantified atoms cannot
   match the empty string (the property's proviso) and have sensible bounds *)
Definition item_ascii (c : citem) : Prop := match c with CChar x => x < 128 | CRange lo hi => lo < 128 /\ hi < 128 end.

Fixpoint reg_atom (a : ratom) : Prop :=
  match a with
  | RChar c | REscChar c => c < 128
  | RDot | RCls _ _ => True
  | RBracket _ items => items <> [] /\ Forall item_ascii items
  | RBackNum _ | RBackNum2 _ _ | RBackName _ => False
  | RGroup _ body => reg_disj body
  end
with reg_lit (l : rlit) : Prop :=
  match l with
  | RBol | REol => False
  | RQ a None => reg_atom a
  | RQ a (Some (q, _)) => reg_atom a /\ (forall w, ra_lang a w -> w <> []) /\
                          exists mn mx, quant_bounds q = Some (mn, mx) /\ (mx = -1 \/ Z.of_nat mn <= mx)%Z
  end
with reg_pat (p : rpat) : Prop :=
  match p with POne l => reg_lit l | PAlt l r => reg_lit l /\ reg_pat r end
with reg_disj (d : rdis) : Prop :=
  match d with DNil => True | DCons p r => reg_pat p /\ reg_disj r end.
