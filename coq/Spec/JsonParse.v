(* C17: a plain recursive-descent reader of JSON text (RFC 8259 grammar restricted to what a result
   document needs: objects, arrays, strings with escapes, integers; blanks allowed between tokens).
   It is the yardstick for "is valid JSON and carries the data": both renderings of a document must
   be read back as that document. *)
From Model Require Export Json.
Local Open Scope N_scope.

Definition is_ws (c : N) : bool := (c =? 32) || (c =? 9) || (c =? 10) || (c =? 13).

Fixpoint skipws (s : bytes) : bytes :=
  match s with c :: r => if is_ws c then skipws r else s | [] => [] end.

Definition hexv (c : N) : option N :=
  if (48 <=? c) && (c <=? 57) then Some (c - 48)
  else if (97 <=? c) && (c <=? 102) then Some (c - 87)
  else if (65 <=? c) && (c <=? 70) then Some (c - 55)
  else None.

(* the characters of a string up to the closing quote *)
Fixpoint pstr (fuel : nat) (s : bytes) (acc : bytes) : option (bytes * bytes) :=
  match fuel with
  | O => None
  | S f =>
      match s with
      | [] => None
      | c :: r =>
          if c =? 34 then Some (acc, r)
          else if c =? 92 then
            match r with
            | [] => None
            | e :: r1 =>
                if e =? 117 then
                  match r1 with
                  | h1 :: h2 :: h3 :: h4 :: r2 =>
                      match hexv h1, hexv h2, hexv h3, hexv h4 with
                      | Some a, Some b, Some c3, Some d => pstr f r2 (acc ++ [((a * 16 + b) * 16 + c3) * 16 + d])
                      | _, _, _, _ => None
                      end
                  | _ => None
                  end
                else if e =? 110 then pstr f r1 (acc ++ [10])
                else if e =? 114 then pstr f r1 (acc ++ [13])
                else if e =? 116 then pstr f r1 (acc ++ [9])
                else if e =? 98 then pstr f r1 (acc ++ [8])
                else if e =? 102 then pstr f r1 (acc ++ [12])
                else if (e =? 34) || (e =? 92) || (e =? 47) then pstr f r1 (acc ++ [e])
                else None
            end
          else if c <? 32 then None          (* control characters must be escaped *)
          else pstr f r (acc ++ [c])
      end
  end.

Fixpoint pdigits (s : bytes) (acc : Z) (any : bool) : option (Z * bytes) :=
  match s with
  | c :: r => if (48 <=? c) && (c <=? 57) then pdigits r (acc * 10 + Z.of_N (c - 48))%Z true
              else if any then Some (acc, s) else None
  | [] => if any then Some (acc, []) else None
  end.

Definition pnum (s : bytes) : option (Z * bytes) :=
  match s with
  | c :: r => if c =? 45 then match pdigits r 0 false with Some (v, r') => Some ((- v)%Z, r') | None => None end
              else pdigits s 0 false
  | [] => None
  end.

Fixpoint pval (fuel : nat) (s : bytes) : option (json * bytes) :=
  match fuel with
  | O => None
  | S f =>
      match skipws s with
      | [] => None
      | c :: r =>
          if c =? 34 then match pstr (S (length r)) r [] with Some (v, r') => Some (JStr v, r') | None => None end
          else if c =? 123 then
            match skipws r with
            | [] => None
            | c1 :: r' => if c1 =? 125 then Some (JObj [], r')
                          else match pmembers f (c1 :: r') with Some (fs, r2) => Some (JObj fs, r2) | None => None end
            end
          else if c =? 91 then
            match skipws r with
            | [] => None
            | c1 :: r' => if c1 =? 93 then Some (JArr [], r')
                          else match pitems f (c1 :: r') with Some (xs, r2) => Some (JArr xs, r2) | None => None end
            end
          else match pnum (c :: r) with Some (z, r') => Some (JNum z, r') | None => None end
      end
  end
with pmembers (fuel : nat) (s : bytes) : option (list (bytes * json) * bytes) :=
  match fuel with
  | O => None
  | S f =>
      match s with
      | [] => None
      | q :: r =>
          if negb (q =? 34) then None else
          match pstr (S (length r)) r [] with
          | None => None
          | Some (k, r1) =>
              match skipws r1 with
              | [] => None
              | c :: r2 =>
                  if negb (c =? 58) then None else
                  match pval f r2 with
                  | None => None
                  | Some (v, r3) =>
                      match skipws r3 with
                      | [] => None
                      | d :: r4 =>
                          if d =? 44 then match pmembers f (skipws r4) with Some (fs, r') => Some ((k, v) :: fs, r') | None => None end
                          else if d =? 125 then Some ([(k, v)], r4)
                          else None
                      end
                  end
              end
          end
      end
  end
with pitems (fuel : nat) (s : bytes) : option (list json * bytes) :=
  match fuel with
  | O => None
  | S f =>
      match pval f s with
      | None => None
      | Some (v, r3) =>
          match skipws r3 with
          | [] => None
          | d :: r4 =>
              if d =? 44 then match pitems f r4 with Some (xs, r') => Some (v :: xs, r') | None => None end
              else if d =? 93 then Some ([v], r4)
              else None
          end
      end
  end.

(* a whole text: one value, then only blanks *)
Definition jparse (s : bytes) : option json :=
  match pval (S (length s)) s with
  | Some (j, r) => match skipws r with [] => Some j | _ => None end
  | None => None
  end.
