(* C16: what a string literal is documented to denote.  A literal is a quote, a sequence of
   spellings of single characters, and the same quote. *)
From Model Require Export Lexer.
Local Open Scope N_scope.

Inductive piece :=
| PRaw (c : N)          (* the character itself *)
| PNamed (c : N)        (* \n \t \r \a \b \f \v  (c is the letter) *)
| PHex (h1 h2 : N)      (* \xHH *)
| PEsc (c : N)          (* backslash before any other character: that character *)
| PBadX.                (* \x not followed by two hex digits: the letter x, everything after it is kept *)

Definition named_letters : list N := [110; 116; 114; 97; 98; 102; 118].

Definition spell (p : piece) : list N :=
  match p with
  | PRaw c => [c] | PNamed c => [92; c] | PHex a b => [92; 120; a; b] | PEsc c => [92; c] | PBadX => [92; 120]
  end.

Definition denote (p : piece) : N :=
  match p with
  | PRaw c => c
  | PNamed c => if c =? 110 then 10 else if c =? 116 then 9 else if c =? 114 then 13 else if c =? 97 then 7
                else if c =? 98 then 8 else if c =? 102 then 12 else 11
  | PHex a b => hexval a * 16 + hexval b
  | PEsc c => c
  | PBadX => 120
  end.

Definition spell_all (ps : list piece) : list N := flat_map spell ps.

Definition both_hex (l : list N) : bool :=
  match l with a :: b :: _ => is_hex a && is_hex b | _ => false end.

(* the spellings the documentation allows, for a literal written with quote q and followed by [after] *)
Fixpoint valid (q : N) (ps : list piece) (after : list N) : Prop :=
  match ps with
  | [] => True
  | p :: r =>
      (match p with
       | PRaw c => c <> 0 /\ c <> 92 /\ c <> q /\ c < 128
       | PNamed c => In c named_letters
       | PHex a b => is_hex a = true /\ is_hex b = true /\ 0 < hexval a * 16 + hexval b < 128
       | PEsc c => c <> 0 /\ ~ In c named_letters /\ c <> 120 /\ c < 128
       | PBadX => both_hex (spell_all r ++ after) = false
       end) /\ valid q r after
  end.
