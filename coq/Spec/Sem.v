(* The specification of pattern matching: for a resolved pattern and a starting state
   (position, bindings) the LIST OF ALL OUTCOMES IN PRIORITY ORDER (earlier alternative first,
   greedy loops longest first, `fewest` loops shortest first).  An attempt reports the first
   outcome.  The relation is inductive, so guarded recursion needs no fuel; [outs_f] is the
   executable (fuelled) version used as oracle by the correspondence check. *)
From Model Require Export Rx Atoms Process Value.

Definition st := (nat * env)%type.


Section Sem.
Variable text : bytes.
Variable start : nat.                              (* offset at which the attempt began *)
Variable defs : nat -> option (rx * pstmts).       (* subroutine whose code sits at pc t: body, predicate *)

(* one text-matching instruction *)
Definition atom_pos (i : instr) (p : nat) : option nat :=
  match i with
  | IMatchLit nt cl v => match_lit text v nt cl p
  | IMatchClass nt k => match_class text k nt p
  | IMatchRange nt f t => match_range text f t nt p
  | _ => None
  end.

Definition atom_outs (i : instr) (s : st) : list st :=
  match atom_pos i (fst s) with Some p' => [(p', snd s)] | None => [] end.

(* a back-reference matches exactly the text bound to the name (an empty binding matches the
   empty string; an unbound name or a loop's map matches nothing) *)
Definition ref_outs (n : name) (s : st) : list st :=
  match alookup (snd s) n with
  | Some (VStr []) => [s]
  | Some (VStr v) => match match_lit text v false false (fst s) with Some p' => [(p', snd s)] | None => [] end
  | _ => []
  end.

Definition is_some {A} (o : option A) : bool := match o with Some _ => true | None => false end.

(* not in i1, i2, ...: fails if some item matches here, else consumes maxsize bytes (if it can) *)
Definition notin_outs (items : list instr) (mx : Z) (s : st) : list st :=
  if existsb (fun i => is_some (atom_pos i (fst s))) items then []
  else let n := consume_len text (fst s) (Z.to_nat mx) in
       if Nat.eqb n 0 then [] else [(fst s + n, snd s)].

Definition bind (n : name) (s q : st) : st :=
  (fst q, aset (snd q) n (VStr (sub text (fst s) (fst q)))).

(* the predicate of a stored pattern sees the text matched since the attempt began *)
Definition pred_env (q : st) : penv :=
  let m := sub text start (fst q) in
  [(match_name, PVStr m); (matchLength_name, PVNum (Z.of_nat (length m)))].

Definition pred_holds (pred : pstmts) (q : st) : option bool :=
  match pred with
  | PNil => Some true
  | _ => match run_program proc_fuel pred (init_pstate (pred_env q)) with
         | Ok v => Some (get_boolean v)
         | _ => None
         end
  end.

Inductive filter_pred (pred : pstmts) : list st -> list st -> Prop :=
| fp_nil : filter_pred pred [] []
| fp_keep q l l' : pred_holds pred q = Some true -> filter_pred pred l l' -> filter_pred pred (q :: l) (q :: l')
| fp_drop q l l' : pred_holds pred q = Some false -> filter_pred pred l l' -> filter_pred pred (q :: l) l'.

Inductive outs : rx -> st -> list st -> Prop :=
| o_eps s : outs XEps s [s]
| o_atom i s : outs (XAtom i) s (atom_outs i s)
| o_ref n s : outs (XRef n) s (ref_outs n s)
| o_seq a b s la lb : outs a s la -> outs_list b la lb -> outs (XSeq a b) s lb
| o_alt a b s la lb : outs a s la -> outs b s lb -> outs (XAlt a b) s (la ++ lb)
| o_in items s : outs (XIn items) s (flat_map (fun i => atom_outs i s) items)
| o_notin items mx s : (0 <= mx)%Z -> outs (XNotIn items mx) s (notin_outs items mx s)
| o_loop id mn mx fw b s l : iter id mn mx fw b 0 s l -> outs (XLoop id mn mx fw [] b) s l
| o_dec n b s la : outs b s la -> outs (XDec n b) s (map (bind n s) la)
| o_sub n b pred s l l' : outs b s l -> filter_pred pred l l' -> outs (XSub n b pred) s l'
| o_call n t b pred s l l' : defs t = Some (b, pred) -> outs b s l -> filter_pred pred l l' ->
                             outs (XCall n t) s l'
(* continue with b from every state of a list, in order *)
with outs_list : rx -> list st -> list st -> Prop :=
| ol_nil b : outs_list b [] []
| ol_cons b s ss l1 l2 : outs b s l1 -> outs_list b ss l2 -> outs_list b (s :: ss) (l1 ++ l2)
(* a loop entered at state s with c iterations completed *)
with iter : nat -> nat -> Z -> bool -> rx -> nat -> st -> list st -> Prop :=
| it_min id mn mx fw b c s la l : c < mn -> outs b s la -> iters id mn mx fw b c s la l ->
                                  iter id mn mx fw b c s l
| it_greedy id mn mx b c s la l : mn <= c -> within mx c = true -> outs b s la ->
                                  iters id mn mx false b c s la l -> iter id mn mx false b c s (l ++ [s])
| it_lazy id mn mx b c s la l : mn <= c -> within mx c = true -> outs b s la ->
                                iters id mn mx true b c s la l -> iter id mn mx true b c s (s :: l)
| it_over id mn mx fw b c s : mn <= c -> within mx c = false -> iter id mn mx fw b c s []
(* continue the loop from every outcome of one iteration; an iteration that consumed nothing is
   rejected *)
with iters : nat -> nat -> Z -> bool -> rx -> nat -> st -> list st -> list st -> Prop :=
| is_nil id mn mx fw b c s : iters id mn mx fw b c s [] []
| is_zero id mn mx fw b c s q qs l : fst q = fst s -> iters id mn mx fw b c s qs l ->
                                     iters id mn mx fw b c s (q :: qs) l
| is_cons id mn mx fw b c s q qs l1 l2 : fst q <> fst s -> iter id mn mx fw b (S c) q l1 ->
                                         iters id mn mx fw b c s qs l2 ->
                                         iters id mn mx fw b c s (q :: qs) (l1 ++ l2).

(* ---- executable version ---- *)
Fixpoint filter_pred_f (pred : pstmts) (l : list st) : option (list st) :=
  match l with
  | [] => Some []
  | q :: r => match pred_holds pred q, filter_pred_f pred r with
              | Some true, Some r' => Some (q :: r')
              | Some false, Some r' => Some r'
              | _, _ => None
              end
  end.

Fixpoint flat_opt {A B} (f : A -> option (list B)) (l : list A) : option (list B) :=
  match l with
  | [] => Some []
  | x :: r => match f x, flat_opt f r with
              | Some a, Some b => Some (a ++ b)
              | _, _ => None
              end
  end.

Fixpoint outs_f (fuel : nat) (r : rx) (s : st) {struct fuel} : option (list st) :=
  match fuel with
  | O => None
  | S f =>
    match r with
    | XEps => Some [s]
    | XAtom i => Some (atom_outs i s)
    | XRef n => Some (ref_outs n s)
    | XSeq a b => match outs_f f a s with Some la => flat_opt (outs_f f b) la | None => None end
    | XAlt a b => match outs_f f a s, outs_f f b s with Some la, Some lb => Some (la ++ lb) | _, _ => None end
    | XIn items => Some (flat_map (fun i => atom_outs i s) items)
    | XNotIn items mx => if Z.ltb mx 0 then None else Some (notin_outs items mx s)
    | XLoop id mn mx fw nm b => match nm with [] => iter_f f id mn mx fw b 0 s | _ => None end
    | XDec n b => match outs_f f b s with Some la => Some (map (bind n s) la) | None => None end
    | XSub n b pred => match outs_f f b s with Some l => filter_pred_f pred l | None => None end
    | XCall n t => match defs t with
                   | Some (b, pred) => match outs_f f b s with Some l => filter_pred_f pred l | None => None end
                   | None => None
                   end
    end
  end
with iter_f (fuel : nat) (id mn : nat) (mx : Z) (fw : bool) (b : rx) (c : nat) (s : st) {struct fuel} : option (list st) :=
  match fuel with
  | O => None
  | S f =>
      if (Nat.leb mn c && negb (within mx c))%bool then Some []
      else
        match outs_f f b s with
        | None => None
        | Some la =>
            match flat_opt (fun q => if Nat.eqb (fst q) (fst s) then Some [] else iter_f f id mn mx fw b (S c) q) la with
            | None => None
            | Some l =>
                if Nat.ltb c mn then Some l
                else if fw then Some (s :: l) else Some (l ++ [s])
            end
        end
  end.

End Sem.
