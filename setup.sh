#!/bin/bash
# Build the framework from files on disk only (offline): Coq development, extracted model, OCaml driver.
set -e
cd "$(dirname "$0")"
export GOFLAGS=-mod=mod GOPROXY=off GOSUMDB=off GOTOOLCHAIN=local GOWORK=off
mkdir -p coq/Generated
(cd coq && coq_makefile -f _CoqProject -o Makefile >/dev/null 2>&1 && timeout 3000 make -j16 >/dev/null 2>make.log || { tail -30 make.log; exit 1; })
(cd ocaml && ./build.sh)
(cd harness && go build -tags verif -o /dev/null . )
echo setup-ok
