// vlextab: a translator from libvore/ast/lexer.go to Coq (trusted, syntactic, go/parser + go/ast).
//
//	vlextab /repo/libvore/ast/lexer.go out.v
//
// It reads the tables of getNextToken as they are written in the source NOW - the list of token
// types, the list of lexer states, the final `switch current_state` (which token type or error every
// state ends in, with fallthrough chains resolved), the keyword table and the operator table inside
// it - and emits them as Coq definitions.  Separate/LexTables.v proves that the model's tables
// (Model/Lexer.v: keywords, operators, finish) are exactly these, and that every state has a case.
package main

import (
	"fmt"
	"go/ast"
	"go/parser"
	"go/printer"
	"go/token"
	"os"
	"strconv"
	"strings"
)

func fail(msg string) {
	fmt.Fprintln(os.Stderr, "vlextab:", msg)
	os.Exit(1)
}

func constNames(gd *ast.GenDecl, typ string) []string {
	if gd.Tok != token.CONST || len(gd.Specs) == 0 {
		return nil
	}
	first := gd.Specs[0].(*ast.ValueSpec)
	id, ok := first.Type.(*ast.Ident)
	if !ok || id.Name != typ {
		return nil
	}
	var out []string
	for _, sp := range gd.Specs {
		for _, n := range sp.(*ast.ValueSpec).Names {
			out = append(out, n.Name)
		}
	}
	return out
}

// token.TokenType = X  ->  X
func tokenTypeAssigned(s ast.Stmt) string {
	as, ok := s.(*ast.AssignStmt)
	if !ok || len(as.Lhs) != 1 || len(as.Rhs) != 1 {
		return ""
	}
	se, ok := as.Lhs[0].(*ast.SelectorExpr)
	if !ok || se.Sel.Name != "TokenType" {
		return ""
	}
	if id, ok := as.Rhs[0].(*ast.Ident); ok {
		return id.Name
	}
	return ""
}

// unendingX = true  ->  X
func flagSet(s ast.Stmt) string {
	as, ok := s.(*ast.AssignStmt)
	if !ok || len(as.Lhs) != 1 || len(as.Rhs) != 1 {
		return ""
	}
	l, ok1 := as.Lhs[0].(*ast.Ident)
	r, ok2 := as.Rhs[0].(*ast.Ident)
	if ok1 && ok2 && r.Name == "true" && strings.HasPrefix(l.Name, "unending") {
		return strings.TrimPrefix(l.Name, "unending")
	}
	return ""
}

type pair struct{ k, v string }

func exprText(fset *token.FileSet, e ast.Expr) string {
	var b strings.Builder
	if err := printer.Fprint(&b, fset, e); err != nil {
		fail(err.Error())
	}
	return b.String()
}

func main() {
	if len(os.Args) != 3 {
		fail("usage: vlextab lexer.go out.v")
	}
	fset := token.NewFileSet()
	f, err := parser.ParseFile(fset, os.Args[1], nil, 0)
	if err != nil {
		fail(err.Error())
	}
	var ttypes, states []string
	for _, d := range f.Decls {
		if gd, ok := d.(*ast.GenDecl); ok {
			if ns := constNames(gd, "TokenType"); ns != nil {
				ttypes = ns
			}
		}
	}
	var fn *ast.FuncDecl
	for _, d := range f.Decls {
		if fd, ok := d.(*ast.FuncDecl); ok && fd.Name.Name == "getNextToken" {
			fn = fd
		}
	}
	if fn == nil {
		fail("getNextToken not found")
	}
	var final *ast.SwitchStmt
	for _, st := range fn.Body.List { // top level of the body only
		switch x := st.(type) {
		case *ast.DeclStmt:
			if gd, ok := x.Decl.(*ast.GenDecl); ok {
				if ns := constNames(gd, "TokenState"); ns != nil {
					states = ns
				}
			}
		case *ast.SwitchStmt:
			if id, ok := x.Tag.(*ast.Ident); ok && id.Name == "current_state" {
				final = x
			}
		}
	}
	if final == nil || states == nil || ttypes == nil {
		fail("final switch, state list or token type list not found")
	}
	var finals, keywords, operators []pair
	keywordKey, operatorKey := "", ""
	var pending []string
	hasDefaultPanic := false
	for _, c := range final.Body.List {
		cc := c.(*ast.CaseClause)
		if cc.List == nil {
			hasDefaultPanic = true
			continue
		}
		for _, e := range cc.List {
			id, ok := e.(*ast.Ident)
			if !ok {
				fail("case expression is not an identifier")
			}
			pending = append(pending, id.Name)
		}
		if n := len(cc.Body); n > 0 {
			if br, ok := cc.Body[n-1].(*ast.BranchStmt); ok && br.Tok == token.FALLTHROUGH {
				if n != 1 {
					fail("statements before fallthrough in the final switch")
				}
				continue
			}
		}
		// outcome of this clause
		tt, flag, table := "", "", ""
		keyExpr := ""
		for _, s := range cc.Body {
			if as, ok := s.(*ast.AssignStmt); ok && len(as.Lhs) == 1 && len(as.Rhs) == 1 {
				if id, ok := as.Lhs[0].(*ast.Ident); ok && id.Name == "lexeme" {
					keyExpr = exprText(fset, as.Rhs[0])
				}
			}
			if t := tokenTypeAssigned(s); t != "" {
				tt = t
			}
			if fl := flagSet(s); fl != "" {
				flag = fl
			}
			if sw, ok := s.(*ast.SwitchStmt); ok {
				id, ok := sw.Tag.(*ast.Ident)
				if !ok || id.Name != "lexeme" {
					fail("unexpected nested switch")
				}
				var tab []pair
				for _, c2 := range sw.Body.List {
					cc2 := c2.(*ast.CaseClause)
					t2 := ""
					for _, s2 := range cc2.Body {
						if t := tokenTypeAssigned(s2); t != "" {
							t2 = t
						}
					}
					if cc2.List == nil || t2 == "" || len(cc2.Body) != 1 {
						fail("unexpected clause in a lexeme table")
					}
					for _, e := range cc2.List {
						bl, ok := e.(*ast.BasicLit)
						if !ok || bl.Kind != token.STRING {
							fail("lexeme table key is not a string literal")
						}
						k, _ := strconv.Unquote(bl.Value)
						tab = append(tab, pair{k, t2})
					}
				}
				if tt == "IDENTIFIER" {
					keywords, table = tab, "keywords"
					keywordKey = keyExpr
				} else {
					operators, table = tab, "operators"
					operatorKey = keyExpr
				}
			}
		}
		out := ""
		switch {
		case table != "":
			out = "table:" + tt + ":" + table
		case tt == "ERROR" && flag != "":
			out = "err:" + flag
		case tt == "ERROR":
			out = "err:Unknown"
		case tt != "":
			out = "tok:" + tt
		default:
			fail("clause without a token type")
		}
		for _, s := range pending {
			finals = append(finals, pair{s, out})
		}
		pending = nil
	}
	if len(pending) != 0 {
		fail("dangling fallthrough")
	}
	// getEscapedRune: the chain `if ch == 'n' { return rune(10) } else if ...` and the final `return rune(ch)`
	type esc struct{ from, to int64 }
	var escapes []esc
	for _, d := range f.Decls {
		fd, ok := d.(*ast.FuncDecl)
		if !ok || fd.Name.Name != "getEscapedRune" {
			continue
		}
		if len(fd.Body.List) != 2 {
			fail("getEscapedRune: expected one if-chain and one return")
		}
		var st ast.Stmt = fd.Body.List[0]
		for st != nil {
			is, ok := st.(*ast.IfStmt)
			if !ok || is.Init != nil || len(is.Body.List) != 1 {
				fail("getEscapedRune: unexpected statement in the chain")
			}
			be, ok := is.Cond.(*ast.BinaryExpr)
			if !ok || be.Op != token.EQL {
				fail("getEscapedRune: condition is not ch == 'c'")
			}
			l, ok1 := be.X.(*ast.Ident)
			r, ok2 := be.Y.(*ast.BasicLit)
			if !ok1 || !ok2 || l.Name != "ch" || r.Kind != token.CHAR {
				fail("getEscapedRune: condition is not ch == 'c'")
			}
			c, _, _, err := strconv.UnquoteChar(r.Value[1:len(r.Value)-1], '\'')
			if err != nil {
				fail(err.Error())
			}
			ret, ok := is.Body.List[0].(*ast.ReturnStmt)
			if !ok || len(ret.Results) != 1 {
				fail("getEscapedRune: branch is not a return")
			}
			call, ok := ret.Results[0].(*ast.CallExpr)
			if !ok || len(call.Args) != 1 {
				fail("getEscapedRune: branch does not return rune(n)")
			}
			lit, ok := call.Args[0].(*ast.BasicLit)
			if !ok || lit.Kind != token.INT {
				fail("getEscapedRune: branch does not return rune(<integer>)")
			}
			v, err := strconv.ParseInt(lit.Value, 0, 64)
			if err != nil {
				fail(err.Error())
			}
			escapes = append(escapes, esc{int64(c), v})
			if is.Else == nil {
				st = nil
			} else {
				st = is.Else
			}
		}
		ret, ok := fd.Body.List[1].(*ast.ReturnStmt)
		if !ok || len(ret.Results) != 1 || exprText(fset, ret.Results[0]) != "rune(ch)" {
			fail("getEscapedRune: the default is not `return rune(ch)`")
		}
	}
	if escapes == nil {
		fail("getEscapedRune not found")
	}
	q := func(s string) string { return "\"" + strings.ReplaceAll(s, "\"", "\"\"") + "\"" }
	list := func(xs []string) string {
		ys := make([]string, len(xs))
		for i, x := range xs {
			ys[i] = q(x)
		}
		return "[" + strings.Join(ys, "; ") + "]"
	}
	plist := func(ps []pair) string {
		ys := make([]string, len(ps))
		for i, p := range ps {
			ys[i] = "(" + q(p.k) + ", " + q(p.v) + ")"
		}
		return "[" + strings.Join(ys, ";\n   ") + "]"
	}
	var b strings.Builder
	b.WriteString("(* GENERATED on every run by /verif/lextab from /repo/libvore/ast/lexer.go as it is now. Do not edit. *)\n")
	b.WriteString("From Coq Require Import String List NArith.\nImport ListNotations.\nOpen Scope string_scope.\n\n")
	b.WriteString("Definition gen_ttypes : list string := " + list(ttypes) + ".\n\n")
	b.WriteString("Definition gen_states : list string := " + list(states) + ".\n\n")
	b.WriteString("(* the final switch of getNextToken: state -> tok:TYPE | err:Kind | table:DEFAULT:which (fallthrough chains resolved) *)\n")
	b.WriteString("Definition gen_final : list (string * string) :=\n  " + plist(finals) + ".\n\n")
	b.WriteString("Definition gen_keywords : list (string * string) :=\n  " + plist(keywords) + ".\n\n")
	b.WriteString("Definition gen_operators : list (string * string) :=\n  " + plist(operators) + ".\n\n")
	b.WriteString("(* how the key looked up in each table is computed from the token's text *)\n")
	b.WriteString("Definition gen_keyword_key : string := " + q(keywordKey) + ".\n")
	b.WriteString("Definition gen_operator_key : string := " + q(operatorKey) + ".\n\n")
	var es []string
	for _, e := range escapes {
		es = append(es, fmt.Sprintf("(%d, %d)", e.from, e.to))
	}
	b.WriteString("(* getEscapedRune: the character after a backslash -> the rune it stands for, in the order tested; anything else stands for itself *)\n")
	b.WriteString("Definition gen_escapes : list (N * N) := [" + strings.Join(es, "; ") + "]%N.\n\n")
	b.WriteString(fmt.Sprintf("Definition gen_final_has_default_panic : bool := %v.\n", hasDefaultPanic))
	if err := os.WriteFile(os.Args[2], []byte(b.String()), 0o644); err != nil {
		fail(err.Error())
	}
}
