module vlextab

go 1.19
