module vscanner

go 1.19
