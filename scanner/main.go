// Footprint scanner for C19 (the one translator of this development): lists the package-level
// mutable variables of the libvore packages, every function that reads or writes them, whether
// those accesses are reachable from the public entry points outside a mutex, and assignments in
// package engine through parameters of bytecode/ast types (writes to the shared compiled program).
// Syntactic (go/parser + go/ast only); the result is written as a Coq file.
package main

import (
	"fmt"
	"go/ast"
	"go/parser"
	"go/token"
	"os"
	"path/filepath"
	"sort"
	"strings"
)

type fn struct {
	pkg, name string
	calls     map[string]bool // callee simple names
	reads     map[string]bool // package vars (pkg.name)
	writes    map[string]bool
	holds     map[string]bool // mutex vars locked for the whole body (Lock + defer Unlock)
	progWrite []string
	libState  []string // calls and assignments that reset process-wide state of a library package (rand.Seed, os.Chdir, os.Stdout = ...)
}

type filePkg struct {
	f   *ast.File
	pkg string
}

type acc struct{ v, f, kind string }

func main() {
	root := os.Args[1] // /repo/libvore
	out := os.Args[2]
	dirs := []string{".", "ast", "bytecode", "engine", "files", "ds", "algo"}
	fset := token.NewFileSet()
	pkgVars := map[string]map[string]string{} // pkg -> var -> type string
	funcs := map[string]*fn{}                 // "pkg.Name" -> fn ; methods by bare name too
	byName := map[string][]*fn{}
	files := []filePkg{}
	for _, d := range dirs {
		matches, _ := filepath.Glob(filepath.Join(root, d, "*.go"))
		for _, m := range matches {
			if strings.HasSuffix(m, "_test.go") {
				continue
			}
			src, err := os.ReadFile(m)
			if err != nil {
				fail(err)
			}
			// skip files guarded by the verif build tag (our own hooks)
			if strings.Contains(string(src[:min(len(src), 200)]), "go:build verif") {
				continue
			}
			f, err := parser.ParseFile(fset, m, src, 0)
			if err != nil {
				fail(err)
			}
			pkg := f.Name.Name
			files = append(files, filePkg{f, pkg})
			if pkgVars[pkg] == nil {
				pkgVars[pkg] = map[string]string{}
			}
			for _, decl := range f.Decls {
				gd, ok := decl.(*ast.GenDecl)
				if !ok || gd.Tok != token.VAR {
					continue
				}
				for _, spec := range gd.Specs {
					vs := spec.(*ast.ValueSpec)
					ty := ""
					if vs.Type != nil {
						ty = exprString(vs.Type)
					}
					for _, n := range vs.Names {
						if n.Name != "_" {
							pkgVars[pkg][n.Name] = ty
						}
					}
				}
			}
		}
	}
	isPkgVar := func(pkg string, id *ast.Ident) bool {
		if _, ok := pkgVars[pkg][id.Name]; !ok {
			return false
		}
		if id.Obj != nil {
			// resolved inside this file: package level iff declared by a top-level ValueSpec
			if vs, ok := id.Obj.Decl.(*ast.ValueSpec); ok {
				_ = vs
				return id.Obj.Kind == ast.Var && isTopLevel(files2(files), vs)
			}
			return false
		}
		return true // unresolved in file scope: a package-level name of another file
	}
	// functions of library packages that replace process-wide state every goroutine shares: the generator draws loop ids from math/rand's global
	// source and relies on it only ever moving forward; working directory and environment are shared by all file operations
	resets := map[string]bool{"math/rand.Seed": true, "math/rand/v2.Seed": true, "os.Chdir": true, "os.Setenv": true, "os.Unsetenv": true, "os.Clearenv": true}
	for _, fp := range files {
		pkg := fp.pkg
		imports := map[string]string{} // local name -> import path
		for _, im := range fp.f.Imports {
			path := strings.Trim(im.Path.Value, "\"")
			local := path[strings.LastIndex(path, "/")+1:]
			if local == "v2" {
				local = "rand"
			}
			if im.Name != nil {
				local = im.Name.Name
			}
			imports[local] = path
		}
		for _, decl := range fp.f.Decls {
			fd, ok := decl.(*ast.FuncDecl)
			if !ok || fd.Body == nil {
				continue
			}
			name := fd.Name.Name
			F := &fn{pkg: pkg, name: name, calls: map[string]bool{}, reads: map[string]bool{}, writes: map[string]bool{}, holds: map[string]bool{}}
			funcs[pkg+"."+name] = F
			byName[name] = append(byName[name], F)
			// parameters (and receiver) whose type mentions bytecode. or ast.
			progParams := map[string]bool{}
			addParams := func(fl *ast.FieldList) {
				if fl == nil {
					return
				}
				for _, fld := range fl.List {
					ts := exprString(fld.Type)
					if strings.Contains(ts, "bytecode.") || strings.Contains(ts, "ast.") {
						for _, n := range fld.Names {
							progParams[n.Name] = true
						}
					}
				}
			}
			if pkg == "engine" {
				addParams(fd.Type.Params)
				addParams(fd.Recv)
			}
			lhsSet := map[*ast.Ident]bool{}
			markWrite := func(e ast.Expr) {
				rootID, depth := rootIdent(e)
				if rootID == nil {
					return
				}
				if path, ok := imports[rootID.Name]; ok && rootID.Obj == nil && depth > 0 && !strings.Contains(path, "jmeaster30/vore") {
					F.libState = append(F.libState, fmt.Sprintf("%s.%s: %s = ...", pkg, name, exprString(e)))
				}
				lhsSet[rootID] = true
				if isPkgVar(pkg, rootID) {
					F.writes[pkg+"."+rootID.Name] = true
				}
				if depth > 0 && progParams[rootID.Name] && rootID.Obj != nil {
					F.progWrite = append(F.progWrite, fmt.Sprintf("%s.%s: %s", pkg, name, exprString(e)))
				}
			}
			locked := map[string]bool{}
			unlockedDefer := map[string]bool{}
			ast.Inspect(fd.Body, func(n ast.Node) bool {
				switch x := n.(type) {
				case *ast.AssignStmt:
					for _, l := range x.Lhs {
						if x.Tok == token.DEFINE {
							continue
						}
						markWrite(l)
					}
				case *ast.IncDecStmt:
					markWrite(x.X)
				case *ast.SliceExpr:
					// v[a:b] of a package-level array or slice hands out a window into shared memory (io.Reader.Read(v[:n]) writes through it): assume written
					if id, _ := rootIdent(x.X); id != nil && isPkgVar(pkg, id) {
						F.writes[pkg+"."+id.Name] = true
					}
				case *ast.UnaryExpr:
					if x.Op == token.AND {
						if id, _ := rootIdent(x.X); id != nil && isPkgVar(pkg, id) {
							F.writes[pkg+"."+id.Name] = true // address taken: assume written
						}
					}
				case *ast.DeferStmt:
					if se, ok := x.Call.Fun.(*ast.SelectorExpr); ok && se.Sel.Name == "Unlock" {
						if id, ok := se.X.(*ast.Ident); ok {
							unlockedDefer[id.Name] = true
						}
					}
				case *ast.CallExpr:
					switch f := x.Fun.(type) {
					case *ast.Ident:
						F.calls[f.Name] = true
						// append(p..., x) where p is (part of) a program value handed to the engine: when the slice has spare capacity this writes
						// into the backing array every goroutine running that program shares
						if f.Name == "append" && len(x.Args) > 0 && pkg == "engine" {
							if rootID, _ := rootIdent(x.Args[0]); rootID != nil && progParams[rootID.Name] && rootID.Obj != nil {
								F.progWrite = append(F.progWrite, fmt.Sprintf("%s.%s: append(%s, ...)", pkg, name, exprString(x.Args[0])))
							}
						}
					case *ast.SelectorExpr:
						F.calls[f.Sel.Name] = true
						if id, ok := f.X.(*ast.Ident); ok && id.Obj == nil {
							if path, ok := imports[id.Name]; ok && resets[path+"."+f.Sel.Name] {
								F.libState = append(F.libState, fmt.Sprintf("%s.%s: %s.%s(...)", pkg, name, path, f.Sel.Name))
							}
						}
						if f.Sel.Name == "Lock" {
							if id, ok := f.X.(*ast.Ident); ok {
								locked[id.Name] = true
							}
						}
					}
				}
				return true
			})
			ast.Inspect(fd.Body, func(n ast.Node) bool {
				if id, ok := n.(*ast.Ident); ok && !lhsSet[id] && isPkgVar(pkg, id) {
					F.reads[pkg+"."+id.Name] = true
				}
				return true
			})
			// "held for the whole body" = Lock and the deferred Unlock are statements of the body's top level (a Lock under an `if` protects nothing on the other branch)
			topLock, topDefer := map[string]bool{}, map[string]bool{}
			for _, st := range fd.Body.List {
				switch x := st.(type) {
				case *ast.ExprStmt:
					if ce, ok := x.X.(*ast.CallExpr); ok {
						if se, ok := ce.Fun.(*ast.SelectorExpr); ok && se.Sel.Name == "Lock" {
							if id, ok := se.X.(*ast.Ident); ok {
								topLock[id.Name] = true
							}
						}
					}
				case *ast.DeferStmt:
					if se, ok := x.Call.Fun.(*ast.SelectorExpr); ok && se.Sel.Name == "Unlock" {
						if id, ok := se.X.(*ast.Ident); ok {
							topDefer[id.Name] = true
						}
					}
				}
			}
			for m := range locked {
				if !topLock[m] || !topDefer[m] {
					continue
				}
				if unlockedDefer[m] {
					if _, ok := pkgVars[pkg][m]; ok {
						F.holds[pkg+"."+m] = true
					}
				}
			}
		}
	}
	// reachability from the entry points, with and without passing through lock-holding functions
	entries := []string{"libvore.Compile", "libvore.CompileFile", "libvore.compile", "libvore.Run", "libvore.RunFiles",
		"engine.Run", "engine.RunFiles", "ast.ParseReader", "bytecode.GenerateBytecode"}
	reach := func(avoidLocks bool) map[*fn]bool {
		seen := map[*fn]bool{}
		var visit func(f *fn)
		visit = func(f *fn) {
			if seen[f] {
				return
			}
			seen[f] = true
			if avoidLocks && len(f.holds) > 0 {
				return // everything below runs under the lock
			}
			for c := range f.calls {
				for _, g := range byName[c] {
					visit(g)
				}
			}
		}
		for _, e := range entries {
			if f, ok := funcs[e]; ok {
				visit(f)
			}
		}
		return seen
	}
	all := reach(false)
	unlocked := reach(true)
	// a lock-holding function itself runs its own body under the lock
	var unsync, synced []acc
	written := map[string]bool{}
	for f := range all {
		for v := range f.writes {
			written[v] = true
		}
	}
	mutexes := map[string]bool{}
	for pkg, vs := range pkgVars {
		for v, ty := range vs {
			if strings.Contains(ty, "Mutex") {
				mutexes[pkg+"."+v] = true
			}
		}
	}
	for f := range all {
		under := !unlocked[f] || len(f.holds) > 0
		for _, kind := range []string{"write", "read"} {
			set := f.writes
			if kind == "read" {
				set = f.reads
			}
			for v := range set {
				if mutexes[v] || !written[v] {
					continue // mutexes synchronise themselves; never-written variables are constants
				}
				a := acc{v, f.pkg + "." + f.name, kind}
				if under {
					synced = append(synced, a)
				} else {
					unsync = append(unsync, a)
				}
			}
		}
	}
	var progWrites []string
	for f := range all {
		progWrites = append(progWrites, f.progWrite...)
	}
	sort.Strings(progWrites)
	var libState []string
	for f := range all {
		libState = append(libState, f.libState...)
	}
	sort.Strings(libState)
	sortAcc := func(a []acc) {
		sort.Slice(a, func(i, j int) bool { return a[i].v+a[i].f+a[i].kind < a[j].v+a[j].f+a[j].kind })
	}
	sortAcc(unsync)
	sortAcc(synced)
	var vars []string
	for pkg, vs := range pkgVars {
		for v := range vs {
			vars = append(vars, pkg+"."+v)
		}
	}
	sort.Strings(vars)
	var b strings.Builder
	b.WriteString("(* GENERATED on every run by /verif/scanner from /repo's current source. Do not edit. *)\n")
	b.WriteString("From Coq Require Import String List.\nImport ListNotations.\nOpen Scope string_scope.\n\n")
	b.WriteString("Definition package_vars : list string := [" + quoteList(vars) + "].\n\n")
	b.WriteString("(* accesses (variable, function, kind) reachable from Compile/CompileFile/Run/RunFiles outside any mutex *)\n")
	b.WriteString("Definition unsynchronised_accesses : list (string * string * string) := [" + accList(unsync) + "].\n\n")
	b.WriteString("(* accesses that only happen below a function holding a package-level mutex for its whole body *)\n")
	b.WriteString("Definition synchronised_accesses : list (string * string * string) := [" + accList(synced) + "].\n\n")
	b.WriteString("(* assignments in package engine through a parameter of a bytecode/ast type *)\n")
	b.WriteString("Definition program_writes_at_run_time : list string := [" + quoteList(progWrites) + "].\n\n")
	b.WriteString("(* calls and assignments, reachable from the entry points, that reset process-wide state of a library package *)\n")
	b.WriteString("Definition library_state_resets : list string := [" + quoteList(libState) + "].\n\n")
	b.WriteString(fmt.Sprintf("Definition functions_reachable : nat := %d.\n", len(all)))
	if err := os.WriteFile(out, []byte(b.String()), 0o644); err != nil {
		fail(err)
	}
}

func files2(fs []filePkg) []*ast.File {
	out := []*ast.File{}
	for _, x := range fs {
		out = append(out, x.f)
	}
	return out
}

func isTopLevel(files []*ast.File, vs *ast.ValueSpec) bool {
	for _, f := range files {
		for _, d := range f.Decls {
			if gd, ok := d.(*ast.GenDecl); ok {
				for _, s := range gd.Specs {
					if s == ast.Spec(vs) {
						return true
					}
				}
			}
		}
	}
	return false
}

func rootIdent(e ast.Expr) (*ast.Ident, int) {
	depth := 0
	for {
		switch x := e.(type) {
		case *ast.Ident:
			return x, depth
		case *ast.SelectorExpr:
			e = x.X
			depth++
		case *ast.IndexExpr:
			e = x.X
			depth++
		case *ast.StarExpr:
			e = x.X
		case *ast.ParenExpr:
			e = x.X
		case *ast.CallExpr:
			// x.f().y = ... : writes through a call result (e.g. stack.Peek().field): root is the receiver
			if se, ok := x.Fun.(*ast.SelectorExpr); ok {
				e = se.X
				depth++
			} else {
				return nil, 0
			}
		default:
			return nil, 0
		}
	}
}

func exprString(e ast.Expr) string {
	switch x := e.(type) {
	case *ast.Ident:
		return x.Name
	case *ast.SelectorExpr:
		return exprString(x.X) + "." + x.Sel.Name
	case *ast.StarExpr:
		return "*" + exprString(x.X)
	case *ast.ArrayType:
		return "[]" + exprString(x.Elt)
	case *ast.IndexExpr:
		return exprString(x.X) + "[" + exprString(x.Index) + "]"
	case *ast.MapType:
		return "map[" + exprString(x.Key) + "]" + exprString(x.Value)
	case *ast.CallExpr:
		return exprString(x.Fun) + "()"
	case *ast.BasicLit:
		return x.Value
	case *ast.ParenExpr:
		return "(" + exprString(x.X) + ")"
	case *ast.BinaryExpr:
		return exprString(x.X) + x.Op.String() + exprString(x.Y)
	case *ast.Ellipsis:
		return "..." + exprString(x.Elt)
	case *ast.FuncType:
		return "func"
	case *ast.InterfaceType:
		return "interface"
	}
	return fmt.Sprintf("%T", e)
}

func quoteList(xs []string) string {
	q := []string{}
	for _, x := range xs {
		q = append(q, "\""+strings.ReplaceAll(x, "\"", "'")+"\"")
	}
	return strings.Join(q, "; ")
}

func accList(as []acc) string {
	q := []string{}
	for _, a := range as {
		q = append(q, fmt.Sprintf("(\"%s\", \"%s\", \"%s\")", a.v, a.f, a.kind))
	}
	return strings.Join(q, "; ")
}

func min(a, b int) int {
	if a < b {
		return a
	}
	return b
}

func fail(err error) {
	fmt.Fprintln(os.Stderr, err)
	os.Exit(2)
}
