#!/usr/bin/env python3
"""check <ID> [--tier quick|thorough] [--replay file]

Decides one property: (1) the Coq development builds, the property file's theorems are closed
(Print Assumptions audited), no forbidden construct anywhere; (2) the correspondence between the
model/spec and the implementation built from /repo's working tree, on corpus + generated +
(thorough) exhaustive cases; (3) decision, evidence, exit status."""
import sys, os, json, time, re, subprocess, hashlib, importlib, random, traceback

LIB = os.path.dirname(os.path.abspath(__file__))
sys.path.insert(0, LIB)
import vh, model

VERIF = vh.VERIF
COQ = os.path.join(VERIF, "coq")

FORBIDDEN = re.compile(r"\b(Admitted|admit|Axiom|Axioms|Parameter|Parameters|Conjecture|Hypothesis|Variable|Variables|Unset\s+Guard|bypass_check|Admit\s+Obligations|Unset\s+Positivity|Unset\s+Universe|native_compute|type-in-type)\b")
ALLOWED_AXIOMS = set()   # none: every property theorem must be "Closed under the global context"

TRUSTED_BASE = [
    "Coq 8.16.1 kernel (coqc), vm_compute for finite sweeps and witnesses; no native_compute",
    "no axioms: every property theorem is 'Closed under the global context' (Print Assumptions, parsed on every run)",
    "extraction: ExtrOcamlBasic only (bool, option, unit, list, prod, sumbool, sumor; andb/orb inlined); nat/positive/N/Z stay inductive; OCaml 4.13.1; hand-written ocaml/driver.ml (I/O only)",
    "correspondence check: Go harness /verif/harness (built against /repo's working tree), Python drivers and generators in /verif/lib",
    "hand-written Gallina model of the Go code (Model/*.v) tied to /repo by the correspondence check on every run",
]


def strip_comments(src):
    out = []
    depth = 0
    i = 0
    while i < len(src):
        if src.startswith("(*", i):
            depth += 1
            i += 2
        elif src.startswith("*)", i) and depth > 0:
            depth -= 1
            i += 2
        else:
            if depth == 0:
                out.append(src[i])
            i += 1
    return "".join(out)


def scan_forbidden():
    """Forbidden constructs anywhere in the development (Variables are allowed inside Sections only)."""
    bad = []
    for root, _, fs in os.walk(COQ):
        for f in fs:
            if not f.endswith(".v"):
                continue
            p = os.path.join(root, f)
            src = strip_comments(open(p).read())
            depth = 0
            for ln, line in enumerate(src.split("\n"), 1):
                s = line.strip()
                if re.match(r"Section\s+\w+", s):
                    depth += 1
                for m in FORBIDDEN.finditer(line):
                    w = m.group(1)
                    if w in ("Variable", "Variables", "Hypothesis") and depth > 0:
                        continue
                    bad.append("%s:%d: %s" % (os.path.relpath(p, VERIF), ln, w))
                if re.match(r"End\s+\w+\s*\.", s) and depth > 0:
                    depth -= 1
    return bad


def proof_stage(pid):
    """Returns dict(ok, obligations, discharged, assumptions_text, theorems, errors)."""
    res = {"ok": False, "obligations": 0, "discharged": 0, "theorems": [], "errors": [], "assumptions": []}
    t0 = time.time()
    ok, log = model.coq_make()
    res["make_s"] = round(time.time() - t0, 1)
    if not ok:
        res["errors"].append("coq build failed: " + log[-1500:])
        return res
    pf = os.path.join(COQ, "Properties", pid + ".v")
    pre = []
    if pid == "C19":
        # the hypothesis about the source is regenerated from /repo on every run
        from props import C19 as _c19
        try:
            gen, _ = _c19.generate_footprint()
        except Exception as e:
            res["errors"].append("footprint scanner failed: " + str(e)[-800:])
            return res
        pf = os.path.join(COQ, "Separate", "C19.v")
        pre = [gen]
    if not os.path.exists(pf):
        res["errors"].append("no property file " + pf)
        return res
    src = strip_comments(open(pf).read())
    theorems = re.findall(r"\b(?:Theorem|Corollary)\s+(\w+)", src)
    examples = re.findall(r"\bExample\s+(\w+)", src)
    res["theorems"] = theorems
    res["examples"] = examples
    res["obligations"] = len(theorems)
    args = ["coqc"]
    for line in open(os.path.join(COQ, "_CoqProject")):
        line = line.strip()
        if line.startswith("-Q") or line.startswith("-R"):
            args += line.split()
    args += ["-Q", "Generated", "Generated"]
    for g in pre:
        pg = subprocess.run(["timeout", "600"] + args + [g], cwd=COQ, capture_output=True, text=True)
        if pg.returncode != 0:
            res["errors"].append("generated file does not compile: " + (pg.stdout + pg.stderr)[-800:])
            return res
    p = subprocess.run(["timeout", "1200"] + args + [pf], cwd=COQ, capture_output=True, text=True)
    out = p.stdout + p.stderr
    if p.returncode != 0:
        res["errors"].append("property file does not check: " + out[-1500:])
        return res
    # Print Assumptions output, one block per theorem in order
    blocks = re.split(r"(?=Closed under the global context|Axioms:)", out)
    blocks = [b for b in blocks if b.startswith("Closed under") or b.startswith("Axioms:")]
    res["assumptions"] = [b.strip()[:400] for b in blocks]
    closed = 0
    for b in blocks:
        if b.startswith("Closed under the global context"):
            closed += 1
        else:
            names = set(re.findall(r"^\s*([\w.]+)\s*:", b, re.M)) - {"Axioms"}
            if names and names <= ALLOWED_AXIOMS:
                closed += 1
            else:
                res["errors"].append("theorem depends on axioms: " + b.strip()[:300])
    if len(blocks) < len(theorems):
        res["errors"].append("%d theorems but only %d Print Assumptions audits" % (len(theorems), len(blocks)))
    res["discharged"] = min(closed, len(theorems))
    if pid in ("C08", "C15", "C16"):
        # the lexer's tables, translated from /repo/libvore/ast/lexer.go on every run, against the model's tables
        lt = lexer_tables(args)
        res["theorems"] = res["theorems"] + lt["theorems"]
        res["obligations"] += len(lt["theorems"])
        res["discharged"] += lt["closed"]
        res["assumptions"] += lt["assumptions"]
        res["errors"] += lt["errors"]
        res["translator"] = "lextab: libvore/ast/lexer.go -> coq/Generated/LexGen.v (regenerated on this run), checked by coq/Separate/LexTables.v"
    bad = scan_forbidden()
    if bad:
        res["errors"].append("forbidden constructs: " + "; ".join(bad[:10]))
    res["ok"] = not res["errors"] and res["discharged"] == res["obligations"] and res["obligations"] > 0
    res["checker_cmd"] = "make -C coq (coq_makefile, full .vo build) && coqc Properties/%s.v  # Print Assumptions parsed" % pid
    return res


def lexer_tables(args):
    """build and run the translator /verif/lextab on /repo's lexer.go, compile the generated tables and Separate/LexTables.v; returns theorems / closed / errors"""
    out = {"theorems": [], "closed": 0, "assumptions": [], "errors": []}
    pf = os.path.join(COQ, "Separate", "LexTables.v")
    out["theorems"] = re.findall(r"\b(?:Theorem|Corollary)\s+(\w+)", strip_comments(open(pf).read()))
    import vh
    exe = os.path.join(vh.scratch(), "vlextab")
    pb = subprocess.run(["go", "build", "-o", exe, "."], cwd=os.path.join(VERIF, "lextab"), env=dict(vh.GOENV), capture_output=True, text=True)
    if pb.returncode != 0:
        out["errors"].append("lextab does not build: " + (pb.stdout + pb.stderr)[-500:])
        return out
    os.makedirs(os.path.join(COQ, "Generated"), exist_ok=True)       # ignored by git: absent in a fresh checkout
    gen = os.path.join(COQ, "Generated", "LexGen.v")
    pr = subprocess.run([exe, "/repo/libvore/ast/lexer.go", gen], capture_output=True, text=True)
    if pr.returncode != 0:
        out["errors"].append("the lexer's tables are no longer in the shape the translator reads (%s): the tie by translation is broken" % (pr.stderr.strip()[-300:]))
        return out
    pg = subprocess.run(["timeout", "600"] + args + [gen], cwd=COQ, capture_output=True, text=True)
    if pg.returncode != 0:
        out["errors"].append("generated lexer tables do not compile: " + (pg.stdout + pg.stderr)[-500:])
        return out
    p = subprocess.run(["timeout", "600"] + args + [pf], cwd=COQ, capture_output=True, text=True)
    txt = p.stdout + p.stderr
    if p.returncode != 0:
        out["errors"].append("the model's lexer tables are not the tables of lexer.go as it is now (Separate/LexTables.v): " + txt[-900:])
        return out
    blocks = [b for b in re.split(r"(?=Closed under the global context|Axioms:)", txt) if b.startswith("Closed under") or b.startswith("Axioms:")]
    out["assumptions"] = [b.strip()[:400] for b in blocks]
    out["closed"] = min(sum(1 for b in blocks if b.startswith("Closed under the global context")), len(out["theorems"]))
    if out["closed"] < len(out["theorems"]):
        out["errors"].append("LexTables.v: %d theorems, %d closed" % (len(out["theorems"]), out["closed"]))
    return out


def load_known():
    p = os.path.join(VERIF, "known_findings.json")
    if not os.path.exists(p):
        return []
    return json.load(open(p))["findings"]


def write_replay(pid, obj):
    d = os.path.join(VERIF, "replays")
    os.makedirs(d, exist_ok=True)
    blob = json.dumps(obj, sort_keys=True, indent=1)
    h = hashlib.sha1(blob.encode()).hexdigest()[:10]
    p = os.path.join(d, "%s-%s.json" % (pid, h))
    with open(p, "w") as f:
        f.write(blob + "\n")
    return p


class Ctx:
    def __init__(self, pid, tier, seed):
        self.pid = pid
        self.tier = tier
        self.seed = seed
        self.rng = random.Random("%s/%s/%d" % (pid, tier, seed))
        self.violations = []     # list of dict(desc, replay)
        self.known_hits = []     # list of str
        self.unexplained = []    # model/impl disagreements without a property-level failing input
        self.coverage = {"evaluations": 0, "distinct_nontrivial": 0, "samples": [], "rule": ""}
        self.known = [k for k in load_known() if k.get("property") == pid and k.get("kind") == "known"]
        self.notes = []

    def quick(self):
        return self.tier == "quick"

    def violation(self, desc, replay):
        if len(self.violations) < 25:
            self.violations.append({"desc": desc, "replay": replay})

    def known_finding(self, text):
        if text not in self.known_hits:
            self.known_hits.append(text)

    def corr_break(self, layer, replay):
        """model and implementation disagree but no input failing the property itself was found"""
        self.unexplained.append({"layer": layer, "replay": replay})

    def sample(self, s):
        if len(self.coverage["samples"]) < 8:
            self.coverage["samples"].append(s)


def main():
    args = sys.argv[1:]
    if not args:
        print(__doc__)
        sys.exit(2)
    pid = args[0]
    tier = os.environ.get("VERIF_TIER", "quick")
    replay = None
    i = 1
    while i < len(args):
        if args[i] == "--tier":
            tier = args[i + 1]
            i += 2
        elif args[i] == "--replay":
            replay = args[i + 1]
            i += 2
        else:
            i += 1
    if tier not in ("quick", "thorough"):
        tier = "quick"
    try:
        seed = int(os.environ.get("VERIF_SEED", "1"))
    except ValueError:
        seed = 1
    t0 = time.time()
    ctx = Ctx(pid, tier, seed)
    exit_code = 0
    lines = []

    pr = proof_stage(pid)
    mod = None
    corr_error = None
    try:
        mod = importlib.import_module("props." + pid)
        if replay:
            mod.replay(ctx, json.load(open(replay)))
        else:
            mod.run(ctx)
    except vh.BuildError as e:
        corr_error = "implementation does not build: " + str(e)[-1500:]
    except model.ModelBuildError as e:
        corr_error = "model does not build: " + str(e)[-1500:]
    except Exception:
        corr_error = "check crashed: " + traceback.format_exc()[-2500:]

    for k in ctx.known_hits:
        lines.append("KNOWN-FINDING: property=%s %s" % (pid, k))
    for v in ctx.violations[:5]:
        path = write_replay(pid, v["replay"])
        lines.append("VIOLATION property=%s replay=%s" % (pid, path))
        lines.append("  " + v["desc"][:400])
        exit_code = 1
    if not ctx.violations:
        problems = []
        if not pr["ok"]:
            problems.append({"kind": "proof", "theorem_file": "coq/Properties/%s.v" % pid, "errors": pr["errors"]})
        for u in ctx.unexplained[:3]:
            problems.append({"kind": "correspondence", "layer": u["layer"], "case": u["replay"]})
        if corr_error:
            problems.append({"kind": "check", "error": corr_error})
        if problems:
            path = write_replay(pid, {"property": pid, "no_failing_input_found": True, "broken": problems})
            lines.append("VIOLATION property=%s replay=%s no-failing-input-found" % (pid, path))
            for pb in problems[:3]:
                lines.append("  " + json.dumps(pb)[:600])
            exit_code = 1

    wall = round(time.time() - t0, 2)
    cov = dict(ctx.coverage)
    cov.update({
        "obligations": max(pr["obligations"], 1) if pr["obligations"] else 1,
        "discharged": pr["discharged"] if pr["obligations"] else 0,
        "checker_cmd": pr.get("checker_cmd", "make -C coq && coqc Properties/%s.v" % pid),
        "trusted_base": TRUSTED_BASE + getattr(mod, "TRUSTED_EXTRA", []) if mod else TRUSTED_BASE,
        "theorems": pr["theorems"],
        "examples": pr.get("examples", []),
        "print_assumptions": pr["assumptions"],
        "proof_errors": pr["errors"],
        "known_findings_printed": ctx.known_hits,
        "correspondence_breaks": len(ctx.unexplained),
        "notes": ctx.notes,
    })
    if not cov["samples"]:
        cov["samples"] = ["(no correspondence cases ran)"]
    ev = {
        "property_id": pid, "tier": tier, "seed": seed, "level": "proof",
        "coverage": cov,
        "assumptions": getattr(mod, "ASSUMPTIONS", []) if mod else [],
        "wall_s": wall,
        "violations": len(ctx.violations) + (1 if exit_code and not ctx.violations else 0),
    }
    os.makedirs(os.path.join(VERIF, "evidence"), exist_ok=True)
    with open(os.path.join(VERIF, "evidence", pid + ".json"), "w") as f:
        json.dump(ev, f, indent=1)
    for l in lines:
        print(l)
    print("check %s tier=%s seed=%d: proofs %d/%d, evaluations %d, nontrivial %d, known %d, violations %d, %.1fs" % (
        pid, tier, seed, pr["discharged"], pr["obligations"], cov["evaluations"], cov["distinct_nontrivial"],
        len(ctx.known_hits), len(ctx.violations), wall))
    sys.exit(exit_code)


if __name__ == "__main__":
    main()
