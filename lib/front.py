"""Front end (lexer, parser, regex sub-parser) correspondence: sources, mutations, comparison of the
implementation (ast.VerifLex, ast.ParseReader through the harness) with the extracted model
(lex, parse_source).  Used by the checks of C08, C14, C15, C16."""
import glob, os, re
import vh, model, genprog

KEYWORDS = ("find replace with set to pattern matches transform function all skip take top last any whitespace digit upper lower letter "
            "line file word start end begin not at least most between and exactly maybe fewest named in or if then else debug return head tail "
            "loop continue break true false whole caseless").split()

TOKEN_RE = re.compile(r"""
    (?P<ws>\s+)
  | (?P<block>--\((?:.|\n)*?\)--)
  | (?P<line>--[^\n]*)
  | (?P<str>'(?:\\.|[^'\\])*'|"(?:\\.|[^"\\])*")
  | (?P<re>@/[^/]*/)
  | (?P<word>[A-Za-z][A-Za-z0-9]*)
  | (?P<num>[0-9]+)
  | (?P<op>==|!=|:=|<=|>=|[(){},=<>+\-*/%])
  | (?P<other>.)
""", re.X | re.S)


def tokenize(src):
    """[(kind, spelling)] of a source; ws and comments included"""
    return [(m.lastgroup, m.group(0)) for m in TOKEN_RE.finditer(src)]


def significant(toks):
    return [(k, s) for k, s in toks if k not in ("ws", "block", "line")]


_corpus = None


def corpus():
    """programs of the repository's tests and documentation: [(source, compiles)]"""
    global _corpus
    if _corpus is not None:
        return _corpus
    r = vh.run_cases([{"op": "corpus", "dir": "/repo"}])[0]
    out = [(bytes.fromhex(h).decode("latin-1"), ok == "t") for h, ok in r.get("programs", [])]
    docs = []
    for p in glob.glob("/repo/docs/**/*.md", recursive=True) + glob.glob("/repo/*.md"):
        try:
            txt = open(p, encoding="utf-8").read()
        except Exception:
            continue
        for blk in re.findall(r"```[a-z]*\n(.*?)```", txt, re.S):
            b = blk.strip()
            if re.match(r"(?i)(find|replace|set)\b", b) and all(ord(c) < 128 for c in b):
                docs.append(b)
    seen = {s for s, _ in out}
    for d in docs:
        if d not in seen:
            seen.add(d)
            out.append((d, None))
    _corpus = out
    return out


def generated_programs(rng, n, **kw):
    g = genprog.ProgGen(rng, **kw)
    return [g.program() for _ in range(n)]


REGEX_ATOMS = ["a", "b", "c", ".", "\\d", "\\D", "\\s", "\\S", "[abc]", "[^ab]", "[a-c]", "[a-cx]", "(a)", "(?:ab)", "(?<n>b)", "(a|b)", "a|b", "^", "$", "\\1", "\\k<n>", "\\.", "x"] + \
              [x.encode("utf-8").decode("latin-1") for x in ("é", "\\é", "€", "\\€", "😀", "\\😀", "[é]", "(é)")]     # sources are byte strings held as latin-1 text
REGEX_QUANT = ["", "", "", "{1}", "{1}?", "{0}", "*", "+", "?", "{2}", "{1,}", "{1,2}", "*?", "+?", "??", "{1,2}?", "{2}?", "{1,1}?", "{2,}?"]


def random_regex(rng, hostile=False):
    if hostile:
        pool = list("ab(|)[]{}^$\\.*+?,-<>:=!k1d0 ") + ["(?", "(?:", "(?<", "{1", "{1,", "[^", "\\k<", "\\"] + [x.encode("utf-8").decode("latin-1") for x in ("é", "\\é", "€", "\\😀")]
        return "".join(rng.choice(pool) for _ in range(rng.randint(0, 10))).replace("/", "")
    return "".join(rng.choice(REGEX_ATOMS) + rng.choice(REGEX_QUANT) for _ in range(rng.randint(1, 5)))


SOUP = KEYWORDS + ["'a'", '"b"', "x", "y1", "12", "0", "(", ")", "{", "}", ",", "=", "==", "!=", ":=", "<", ">", "<=", ">=", "+", "-", "*", "/", "%",
                   "-- c\n", "--( b )--", "--( a)-)--", "--())--", "--(-)--", "--()-)-)--", "---\n", "@/a+/", "@/(a|b)*/", "'", '"', "@/a", "@", "!", ":", "--(", "\\", "#", "'\\", "'\\x4", " ", "\n", "\t"]


def mutations(rng, src, limit=None):
    """prefixes and one-token deletion / duplication / swap of a program"""
    toks = tokenize(src)
    sig = [i for i, (k, _) in enumerate(toks) if k not in ("ws", "block", "line")]
    out = []
    for cut in range(len(src) + 1):
        out.append(("prefix", src[:cut]))
    for i in sig:
        sp = [s for _, s in toks]
        out.append(("delete", "".join(sp[:i] + sp[i + 1:])))
        out.append(("duplicate", "".join(sp[:i] + [sp[i], " ", sp[i]] + sp[i + 1:])))
    for a, b in zip(sig, sig[1:]):
        sp = [s for _, s in toks]
        sp[a], sp[b] = sp[b], sp[a]
        out.append(("swap", "".join(sp)))
    if limit is not None and len(out) > limit:
        out = rng.sample(out, limit)
    return out


def token_soup(rng):
    return " ".join(rng.choice(SOUP) for _ in range(rng.randint(1, 14))) if rng.random() < 0.7 else "".join(rng.choice(SOUP) for _ in range(rng.randint(1, 14)))


def random_bytes(rng):
    n = rng.choice([0, 1, 2, 3, 5, 8, 13, 21])
    pool = list(range(1, 128)) * 3 + list(range(128, 256)) + [0]
    return bytes(rng.choice(pool) for _ in range(n)).decode("latin-1")


def model_in_scope(src_bytes):
    """the model's classifier is concrete for ASCII and Latin-1; runes beyond that, invalid UTF-8 and
    numbers of more than 6 digits (unary nat in the extracted model) are outside the comparison"""
    try:
        s = src_bytes.decode("utf-8")
    except UnicodeDecodeError:
        return False
    if any(ord(c) > 127 for c in s):
        # non-ASCII is compared only inside strings, comments and regex bodies
        stripped = "".join(sp for k, sp in tokenize(s) if k not in ("str", "block", "line", "re"))
        if any(ord(c) > 127 for c in stripped):
            return False
    return not re.search(r"[0-9]{7,}", s)


def go_front(r):
    """canonical outcome of the implementation's front end from an e2e (compile only) result"""
    if "panic" in r:
        return ("panic", r["panic"])
    if r.get("hang") or r.get("oom"):
        return ("hang", "hang" if r.get("hang") else "oom")
    if "ast" in r:
        return ("ok", r["ast"])
    if r.get("errclass") == "lex":
        msg = r.get("err", "").split("\n")[0]
        kind = {"LexError: Unknown token": "unknown-token", "LexError: Unending string": "unending-string",
                "LexError: Unending block comment": "unending-block-comment", "LexError: Unending regexp": "unending-regexp"}.get(msg, msg)
        return ("lexerr", kind)
    if r.get("errclass") == "parse":
        return ("parseerr", "")
    return ("other", str({k: v for k, v in r.items() if k not in ("stack",)})[:300])


def model_front(s):
    if s.startswith("(ok "):
        return ("ok", s[4:-1])
    if s.startswith("(lexerr "):
        return ("lexerr", s[8:-1])
    if s.startswith("(parseerr"):
        return ("parseerr", "")
    if s.startswith("(crash"):
        return ("crash", "")
    if s.startswith("(hang"):
        return ("hang", "")
    if s.startswith("(resource"):
        return ("resource", "")
    return ("other", s[:200])


def run_front(sources, shards=12, want_tokens=True, file=True):
    """sources: list of latin-1 str (bytes).  Returns list of dict(go, go_tokens, model, model_tokens, raw)"""
    # "file": the same source is also stored in a file and compiled with libvore.CompileFile (same accept/reject, same error class, same bytecode)
    cases = [{"op": "e2e", "src_hex": vh.hexs(s), "file": bool(file)} for s in sources]
    if want_tokens:
        cases += [{"op": "lex", "src_hex": vh.hexs(s)} for s in sources]
    res = vh.run_cases(cases, shards=shards, timeout_ms=10000)
    n = len(sources)
    lines = []
    scope = [model_in_scope(s.encode("latin-1")) for s in sources]
    for i, s in enumerate(sources):
        if scope[i]:
            lines.append("(p%d parse h%s)" % (i, vh.hexs(s)))
            if want_tokens:
                lines.append("(l%d lex h%s)" % (i, vh.hexs(s)))
    m = model.run_model(lines, shards=shards) if lines else {}
    out = []
    for i, s in enumerate(sources):
        d = {"go": go_front(res[i]), "raw": res[i], "in_scope": scope[i]}
        if want_tokens:
            t = res[n + i]
            d["go_tokens"] = ("ok", t["tokens"]) if "tokens" in t else go_front(t)
        if scope[i]:
            d["model"] = model_front(m.get("p%d" % i, "(missing)"))
            if want_tokens:
                ml = m.get("l%d" % i, "(missing)")
                d["model_tokens"] = ("ok", ml[4:-1]) if ml.startswith("(ok ") else (("lexerr", ml[5:-1]) if ml.startswith("(err ") else ("other", ml[:100]))
        out.append(d)
    return out


def compare_front(ctx, sources, labels=None, impl_prop=True, stats=None, file=True):
    """generic comparison: implementation must not panic/hang; model must agree with it.
    Returns the per-source dicts."""
    outs = run_front(sources, file=file)
    for i, (s, d) in enumerate(zip(sources, outs)):
        lab = labels[i] if labels else ""
        g = d["go"]
        if stats is not None:
            stats[g[0]] = stats.get(g[0], 0) + 1
        if impl_prop and g[0] in ("panic", "hang", "other"):
            ctx.violation("%s %s on a %s source" % (d.get("raw", {}).get("stage", "Compile"), "panics" if g[0] == "panic" else ("does not return (time or memory)" if g[0] == "hang" else "returns neither a program nor an error"), lab or "generated"),
                          {"source": s, "outcome": g})
            continue
        if d.get("raw", {}).get("api_diff"):
            ctx.violation("libvore.Compile disagrees with the parse + generate pipeline on the same source", {"source": s, "difference": str(d["raw"]["api_diff"])[:500]})
            continue
        if g[0] == "ok" and "(nil" in g[1]:
            ctx.violation("the returned syntax tree contains a hole left by a failed parse", {"source": s, "ast": g[1][:400]})
            continue
        if not d["in_scope"]:
            continue
        mo = d["model"]
        if mo[0] == "resource":
            continue
        if mo[0] in ("crash", "hang", "other"):
            ctx.corr_break("MODEL-FRONT", {"source": s, "model": mo, "go": (g[0], g[1][:200])})
            continue
        if "go_tokens" in d and d["go_tokens"] != d["model_tokens"] and not (d["go_tokens"][0] == "lexerr" and d["model_tokens"][0] == "lexerr" and d["go_tokens"][1] == d["model_tokens"][1]):
            ctx.corr_break("CORR-LEX", {"source": s, "go": d["go_tokens"][1][:400], "model": d["model_tokens"][1][:400]})
            continue
        if (g[0], g[1]) != (mo[0], mo[1]):
            ctx.corr_break("CORR-PARSE", {"source": s, "go": (g[0], g[1][:400]), "model": (mo[0], mo[1][:400])})
    return outs
