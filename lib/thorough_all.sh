#!/bin/bash
# Run the thorough tier of all 20 checks one after the other (about 45 min); prints the last lines of each and its time.
cd /verif
for p in C01 C02 C03 C04 C05 C06 C07 C08 C09 C10 C11 C12 C13 C14 C15 C16 C17 C18 C19 C20; do
  s=$(date +%s)
  ./check $p --tier thorough 2>&1 | tail -4
  echo "== $p took $(( $(date +%s) - s )) s"
done
echo FINISHED
