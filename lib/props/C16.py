"""C16: string literals denote exactly the bytes their escapes describe."""
from props.core import *
import front

ASSUMPTIONS = ["the denotation is observed as the property says: (*Vore).Run of `find all <literal>` on b (one match, the whole text) and on near misses of b (no match)",
               "the STRING token's lexeme is also compared with the extracted model's lexer on every case (CORR-LEX)",
               "empty literals are outside (a pattern that can only match the empty string reports nothing)"]

NAMED = {10: "n", 9: "t", 13: "r", 7: "a", 8: "b", 12: "f", 11: "v"}
HEXD = "0123456789abcdefABCDEF"


def spellings(c, q, nxt=None):
    """all documented spellings of byte c inside a literal quoted with q; nxt = the two chars that follow (for \\x)"""
    out = []
    ch = chr(c)
    if ch != q and ch != "\\":
        out.append(("raw", ch))
    if c in NAMED:
        out.append(("named", "\\" + NAMED[c]))
    out.append(("hex-lower", "\\x%02x" % c))
    out.append(("hex-upper", "\\x%02X" % c))
    if ch not in "ntrabfvx":
        out.append(("backslash", "\\" + ch))
    return out


def denote_ok(lit_src, b):
    return {"op": "e2e", "src_hex": vh.hexs("find all " + lit_src), "texts_hex": [vh.hexs(t) for t in near(b)]}


def near(b):
    """b itself, then near misses of the same length"""
    out = [b]
    if b:
        for i in sorted({0, len(b) - 1, len(b) // 2}):
            for d in (1, 32):
                x = (ord(b[i]) ^ d) or 1
                t = b[:i] + chr(x) + b[i + 1:]
                if t != b and t not in out:
                    out.append(t)
    return out


def run(ctx):
    quick = ctx.quick()
    rng = ctx.rng
    cases = []   # (literal source, bytes, label)
    # every byte, every spelling, both quote styles, alone and between neighbours
    for c in range(1, 128):
        for q in "'\"":
            for kind, sp in spellings(c, q):
                cases.append((q + sp + q, chr(c), "single byte %s" % kind))
                cases.append((q + "a" + sp + "Z" + q, "a" + chr(c) + "Z", "embedded %s" % kind))
    # \x followed by 0, 1 or 2 hex digits and any other characters
    foll = [chr(x) for x in range(1, 128)]
    pairs = [(a, b) for a in foll for b in foll] if not quick else [(rng.choice(foll), rng.choice(foll)) for _ in range(600)] + [(a, b) for a in "0aFg'\" \\" for b in "9fAz'\" \\"]
    for a, b in pairs:
        for q in "'\"":
            if a == q or a == "\\" or b == q or b == "\\":
                continue
            if a in HEXD and b in HEXD:
                v = int(a + b, 16)
                if v == 0 or v > 127:
                    continue
                cases.append((q + "\\x" + a + b + q, chr(v), "\\x complete"))
            else:
                cases.append((q + "\\x" + a + b + q, "x" + a + b, "\\x incomplete"))
    # ... and, whatever the tier, every pair over the characters AROUND the hex digits (the rest of their ASCII columns, their case-folded and control-byte twins)
    nearhex = "0123456789:;<=>?/@ABCDEFG`abcdefg" + "".join(chr(c) for c in (0x10, 0x11, 0x19, 0x1a, 0x01, 0x06, 0x21, 0x26, 0x27, 0x41 - 0x40, 0x7f))
    for a in nearhex:
        for b in nearhex:
            for q in "'\"":
                if a == q or a == "\\" or b == q or b == "\\":
                    continue
                if a in HEXD and b in HEXD:
                    v = int(a + b, 16)
                    if 0 < v <= 127:
                        cases.append((q + "\\x" + a + b + q, chr(v), "\\x complete"))
                else:
                    cases.append((q + "\\x" + a + b + q, "x" + a + b, "\\x incomplete"))
    for q in "'\"":
        cases.append((q + "\\x" + q, "x", "\\x incomplete"))
        cases.append((q + "ab\\x" + q, "abx", "\\x incomplete"))
        for a in foll:
            if a != q and a != "\\":
                cases.append((q + "\\x" + a + q, "x" + a, "\\x incomplete"))
                cases.append((q + "\\x" + a + q + " 'k'", None, "\\x incomplete then more source"))
    # every ordered pair of bytes written raw (or, where a byte cannot be raw, with a backslash): adjacent bytes must not interact (CR LF, backslash-newline, ...)
    ctl = list(range(1, 33)) + [34, 39, 47, 48, 65, 92, 110, 120, 127]
    pool = ctl if quick else list(range(1, 128))
    def rawest(c, q):
        sps = dict(spellings(c, q))
        return sps.get("raw") or sps.get("backslash") or sps["hex-lower"]
    for a in pool:
        for b in pool:
            for q in "'\"":
                cases.append((q + rawest(a, q) + rawest(b, q) + q, chr(a) + chr(b), "raw pair"))
    for t3 in ([13, 10, 13], [10, 13, 10], [13, 13, 10], [92, 13, 10], [13, 10, 92], [9, 13, 10], [13, 10, 39], [13, 10, 34]):
        for q in "'\"":
            cases.append((q + "".join(rawest(c, q) for c in t3) + q, "".join(chr(c) for c in t3), "raw pair"))
            cases.append((q + "a" + "".join(rawest(c, q) for c in t3) + "z" + q, "a" + "".join(chr(c) for c in t3) + "z", "raw pair"))
    # the same literal far into a long source (the lexer reads through a 4096-byte buffer and looks two characters ahead after \\x), and very long literals
    pads = list(range(4076, 4096)) + [8180, 8181, 8182, 8183, 8184, 8185] if quick else list(range(4040, 4120)) + list(range(8150, 8200)) + list(range(12260, 12300))
    for pad in pads:
        for q in "'\"":
            for body, b in (("\\x41", "A"), ("a\\x4a\\n", "aJ\n"), ("\\x4", "x4")):
                cases.append((" " * pad + q + body + q, b, "literal deep in a long source"))
    for n in (1021, 1022, 1023, 1024, 1300) if quick else range(1015, 1035):
        for lead in ("", " ", "  ", "   "):
            cases.append((lead + "'" + "\\x41" * n + "'", "A" * n, "very long literal"))
    # random ASCII strings with mixed spellings
    for _ in range(300 if quick else 40000):
        q = rng.choice("'\"")
        n = rng.choice([1, 2, 3, 5, 8])
        bs, src = [], []
        for _ in range(n):
            c = rng.randint(1, 127)
            kind, sp = rng.choice(spellings(c, q))
            # a raw hex digit after a \x-less context is fine; avoid creating an accidental \x escape by construction: pieces are atomic
            bs.append(chr(c))
            src.append(sp)
        cases.append((q + "".join(src) + q, "".join(bs), "random mixed"))
    run_cases_ = [c for c in cases if c[1] is not None]
    res = vh.run_cases([denote_ok(ls, b) for ls, b, _ in run_cases_], shards=12)
    # one process, one after the other: literals that differ only in blank characters (raw or escaped, runs of different lengths), compiled through the
    # library's entry point in three orders - what a literal denotes must not depend on which sources were compiled before it
    blanks = [9, 10, 11, 12, 13, 32]
    hist = []
    for q in "'\"":
        for c in blanks:
            for kind, sp in spellings(c, q):
                hist.append((q + sp + q, chr(c), "blank literal in a compile history"))
                hist.append((q + "p" + sp + "q" + q, "p" + chr(c) + "q", "blank literal in a compile history"))
                hist.append((q + "p" + sp + sp + "q" + q, "p" + chr(c) * 2 + "q", "blank literal in a compile history"))
        for a in blanks:
            for b2 in blanks:
                hist.append((q + rawest(a, q) + rawest(b2, q) + q, chr(a) + chr(b2), "blank literal in a compile history"))
    for lead in ("", " ", "\n", "\t "):
        hist.append((lead + "'a b'", "a b", "blank literal in a compile history"))
        hist.append((lead + "'a  b'", "a  b", "blank literal in a compile history"))
        hist.append((lead + "'a\tb'" + lead, "a\tb", "blank literal in a compile history"))
    orders = [hist, hist[::-1], rng.sample(hist, len(hist))]
    before = [None] * len(run_cases_)
    for od in orders:
        run_cases_ = run_cases_ + od
        before += [["find all " + x[0] for x in od[:k]] for k in range(len(od))]
        res = res + vh.run_cases([denote_ok(ls, b) for ls, b, _ in od], shards=1)
    ev, nt = 0, 0
    kinds = {}
    for (ls, b, lab), r, bf in zip(run_cases_, res, before):
        if r.get("api_diff"):
            ctx.violation("libvore.Compile + Run of `find all <literal>` differ from the parse + generate + run pipeline in the same process",
                          {"literal": ls, "denotes_hex": vh.hexs(b), "kind": lab, "difference": str(r["api_diff"])[:400], "compiled_before_in_the_same_process": bf})
            continue
        ev += 1
        kinds[lab] = kinds.get(lab, 0) + 1
        rep = {"literal": ls, "denotes_hex": vh.hexs(b), "kind": lab}
        if "panic" in r or r.get("hang") or r.get("oom"):
            ctx.violation("Compile/Run of `find all <literal>` panics or hangs", dict(rep, outcome=str({k: v for k, v in r.items() if k != "stack"})[:300]))
            continue
        if "matches_list" not in r:
            ctx.violation("a documented spelling of an ASCII string is rejected: %s" % str(r.get("err", "?")).split("\n")[0], rep)
            continue
        texts = near(b)
        ml = [parse_matches(x) for x in r["matches_list"]]
        m0 = ml[0]
        if not (len(m0) == 1 and bytes.fromhex(m0[0][8][1:]).decode("latin-1") == b and int(m0[0][2]) == 0 and int(m0[0][3]) == len(b)):
            ctx.violation("the literal does not match the text it spells", dict(rep, matches=str(r["matches_list"][0])[:200]))
            continue
        bad = [t for t, m in zip(texts[1:], ml[1:]) if m]
        if bad:
            ctx.violation("the literal matches a different text of the same length", dict(rep, other_hex=vh.hexs(bad[0])))
            continue
        nt += 1
    # lexer correspondence on all literals (incl. those followed by more source)
    srcs = ["find all " + ls for ls, _, _ in cases]
    B = 4000
    for i in range(0, len(srcs), B):
        front.compare_front(ctx, srcs[i:i + B], ["string literal"] * len(srcs[i:i + B]), impl_prop=False)
    ctx.coverage["evaluations"] = ev
    ctx.coverage["distinct_nontrivial"] = nt
    ctx.coverage["kinds"] = kinds
    ctx.coverage["exhaustive"] = True
    ctx.coverage["exhaustive_over"] = "every byte 0x01..0x7f x every spelling x both quotes (alone and embedded)" + ("" if quick else "; \\x followed by every pair of ASCII characters")
    ctx.coverage["rule"] = ("every byte 0x01..0x7f x {raw, named escape, \\xhh, \\xHH, backslash-char} x {single, double quotes} alone and embedded; every ordered pair of bytes (control characters, quotes, backslash and a few others; all of 0x01..0x7f in the thorough tier) written as raw as the quote style allows; \\x followed by 0/1/2 hex digits and other characters "
                            "(all pairs in the thorough tier); random mixed spellings: `find all <literal>` must compile, match b as one whole-text match and match no near miss of the same length; "
                            "token lexemes compared with the model; non-trivial = literals fully confirmed")
    ctx.sample({"literal": cases[0][0], "kind": cases[0][2]})
    ctx.sample({"literal": cases[-1][0], "kind": cases[-1][2]})


def replay(ctx, obj):
    print(obj)
