"""C12: Compile rejects exactly the ill-typed process code."""
import itertools
from props.core import *
from props.C11 import OPS, doc_table, lit, VALUES

ASSUMPTIONS = ["the accept/reject table for operators is the Python transcription of the documented table; statement shapes are compared with the model's checker, "
               "which is proved equivalent to the declarative rules (C12_check_stmts_iff)",
               "accepted programs are also executed: a panic other than the known findings K23/K24 is a violation"]

REP = {"s": ("s", b"ab"), "n": ("n", 3), "b": ("b", True)}
EXPRS = {"s": ["'ab'", "match", "undefinedvar", "head match"], "n": ["3", "matchLength", "1 + 2"], "b": ["true", "1 < 2", "not false"]}


def stmt_shapes(rng, n, ctxkind):
    """small statement lists in the given context, some legal and some not"""
    ret_ok = {"predicate": ["true", "1 < 2"], "transform": ["'x'", "3", "match"]}[ctxkind]
    ret_bad = {"predicate": ["'x'", "3"], "transform": ["true", "1 < 2"]}[ctxkind]
    atoms = ["set x to 1", "set x to 'a'", "set y to true", "debug x", "break", "continue",
             "return " + rng.choice(ret_ok), "return " + rng.choice(ret_bad),
             "if true then %s end", "if 1 then %s end", "if x < 2 then %s else %s end", "loop %s break end", "loop %s end break",
             "loop loop break end break end", "loop if true then break end continue end", "if 'a' then return %s end" % rng.choice(ret_ok),
             "set z to true + 1", "set z to 1 and 2", "set z to 'a' - 'b'", "set z to not 1", "set z to head 3", "return x",
             "set w to head x", "set w to tail y", "set w to y and true", "if y and true then %s end", "set w to x - true", "set w to x * '2'", "set x to matchLength", "set y to matchLength > 3",
             "set w to x + 1", "if x then %s end",
             # empty bodies: each branch is checked on its own
             "if true then else %s end", "if true then end", "if 1 < 2 then else %s end", "if true then else end", "if 'a' then else %s end", "if true then %s else end",
             # an empty loop body (such programs are only compiled here: run, the loop would not end)
             "loop end", "loop end break", "loop end continue", "if true then loop end end break", "loop loop end break end", "loop end if true then continue end"]
    out = []
    for _ in range(n):
        k = rng.choice([1, 2, 3])
        parts = []
        for _ in range(k):
            a = rng.choice(atoms)
            while "%s" in a:
                a = a.replace("%s", rng.choice([x for x in atoms if "%s" not in x]), 1)
            parts.append(a)
        out.append(" ".join(parts))
    return out


def run(ctx):
    quick = ctx.quick()
    rng = ctx.rng
    cases, meta = [], []
    # every (operator, left type, right type) cell
    for op in OPS:
        for lk in "snb":
            for rk in "snb":
                exp = doc_table(op, REP[lk], REP[rk])
                for le in EXPRS[lk][:2 if quick else 4]:
                    for re_ in EXPRS[rk][:2 if quick else 3]:
                        e = "(%s) %s (%s)" % (le, op, re_)
                        if exp is not None and exp != "div0" and exp[0] == "b":
                            src = "set p to pattern 'a' begin return %s end\nfind all p" % e
                        else:
                            src = "set f to transform return %s end\nreplace all 'a' with f" % e
                        cases.append({"src": src, "texts": ["a"]})
                        meta.append(("cell", (op, lk, rk), exp is not None))
    # nested expressions: an ill-typed sub-expression anywhere must make the whole rejected
    LEAVES = [("'ab'", "s"), ("match", "s"), ("3", "n"), ("matchLength", "n"), ("true", "b"), ("false", "b"), ("nosuch", "s")]
    def gen_typed(d):
        if d == 0 or rng.random() < 0.2:
            return rng.choice(LEAVES)
        if rng.random() < 0.15:
            u = rng.choice(["not", "head", "tail"])
            e, t = gen_typed(d - 1)
            rt = None if t is None else ({"not": "b"}.get(u, "s") if t == {"not": "b", "head": "s", "tail": "s"}[u] else None)
            return ("%s (%s)" % (u, e), rt)
        op = rng.choice(list(OPS))
        (le, lt), (re_, rt_) = gen_typed(d - 1), gen_typed(d - 1)
        if lt is None or rt_ is None:
            t = None
        else:
            x = doc_table(op, REP[lt], REP[rt_])
            t = None if x is None else ("n" if x == "div0" else x[0])
        return ("(%s) %s (%s)" % (le, op, re_), t)
    for _ in range(600 if quick else 8000):
        e, t = gen_typed(rng.choice([2, 2, 3]))
        if t == "b":
            src = "set p to pattern 'a' begin return %s end\nfind all p" % e
        elif t is None and rng.random() < 0.5:
            src = "set p to pattern 'a' begin if %s then return true end return false end\nfind all p" % e
        else:
            src = "set f to transform return %s end\nreplace all 'a' with f" % e
        cases.append({"src": src, "texts": ["a"]})
        meta.append(("cell", ("nested", e), t is not None))
    for leaf in ("match", "1", "true", "index", "matchLength"):
        for cmp_ in ("==", "!=", "<", ">", "<=", ">="):
            for bad in ("true + 1", "'a' * 'b'", "not 1", "head 5", "true - 'x'"):
                for src in ("set f to transform if %s %s %s then return 'x' end return 'y' end\nreplace all 'a' with f" % (leaf, cmp_, bad),
                            "set p to pattern 'a' begin if %s %s %s then return true end return false end\nfind all p" % (leaf, cmp_, bad)):
                    if quick and rng.random() < 0.7:
                        continue
                    cases.append({"src": src, "texts": ["a"]})
                    meta.append(("cell", ("if-condition", leaf, cmp_, bad), False))
    # the type of an operator's RESULT, observed through what may be done with it next: every (operand, operator, operand) cell under every unary operator
    # and on the left of every binary operator
    for op in OPS:
        for lk in "snb":
            for rk in "snb":
                x = doc_table(op, REP[lk], REP[rk])
                if x is None:
                    continue
                t = "n" if x == "div0" else x[0]
                inner = "(%s) %s (%s)" % (EXPRS[lk][0], op, EXPRS[rk][0])
                if quick and rng.random() < 0.5 and not (op == "+" and lk == "s"):
                    continue
                for uop, okk in (("not", "b"), ("head", "s"), ("tail", "s")):
                    e = "%s (%s)" % (uop, inner)
                    src = ("set p to pattern 'a' begin return %s end\nfind all p" if uop == "not" else "set f to transform return %s end\nreplace all 'a' with f") % e
                    cases.append({"src": src, "texts": ["a"]})
                    meta.append(("cell", ("result of", op, lk, rk, "under", uop), t == okk))
                for op2 in ("-", "*", "and", "<"):
                    for rk2 in "sb":
                        y = doc_table(op2, REP[t], REP[rk2])
                        e = "(%s) %s (%s)" % (inner, op2, EXPRS[rk2][0])
                        isb = y is not None and y != "div0" and y[0] == "b"
                        src = ("set p to pattern 'a' begin return %s end\nfind all p" if isb else "set f to transform return %s end\nreplace all 'a' with f") % e
                        cases.append({"src": src, "texts": ["a"]})
                        meta.append(("cell", ("result of", op, lk, rk, "left of", op2, rk2), y is not None))
    for uop, okk in (("not", "b"), ("head", "s"), ("tail", "s")):
        for k in "snb":
            e = "%s (%s)" % (uop, EXPRS[k][0])
            src = ("set p to pattern 'a' begin return %s end\nfind all p" if uop == "not" else "set f to transform return %s end\nreplace all 'a' with f") % e
            cases.append({"src": src, "texts": ["a"]})
            meta.append(("cell", (uop, k), k == okk))
    # statement shapes in both contexts: compared with the model's checker (through the generator correspondence)
    for ctxkind in ("transform", "predicate"):
        for body in stmt_shapes(rng, 200 if quick else 3000, ctxkind):
            if ctxkind == "transform":
                src = "set f to transform %s end\nreplace all 'a' with f" % body
            else:
                src = "set p to pattern 'a' begin %s end\nfind all p" % body
            cases.append({"src": src, "texts": [] if "loop end" in body else ["a", "ab"]})
            meta.append(("stmts", ctxkind, None))
    for body in ("loop end break return 'x'", "loop end continue return 'x'", "loop end if true then break end return 'x'", "if true then loop end end break return 'x'",
                 "loop loop end break end return 'x'", "loop end return 'x'", "set x to 1 loop end set x to 2 continue return 'x'"):
        cases.append({"src": "set f to transform %s end\nreplace all 'a' with f" % body, "texts": []})
        meta.append(("stmts", "transform", None))
        cases.append({"src": "set p to pattern 'a' begin %s end\nfind all p" % body.replace("'x'", "true"), "texts": []})
        meta.append(("stmts", "predicate", None))
    # names are case-sensitive, the built-in ones included: a name that differs in case from an assigned or built-in one is an UNKNOWN name (a string)
    for e in ("count - 'x'", "Count - 'x'", "count * 2", "Count * 2", "matchlength * matchlength", "matchLength * matchLength", "MATCHLENGTH - 1", "Match + 1", "match * match", "MatchNumber * 2", "matchnumber - 'x'",
              "K * k", "k * K", "k - 'x'", "K - 'x'", "head Count", "head count", "not Flag", "not flag", "FLAG and flag"):
        pre = "set Count to 1 set K to 'a' set k to 2 set flag to true "
        cases.append({"src": "set f to transform %s return '' + (%s) end\nreplace all 'a' with f" % (pre, e), "texts": ["a", "aa"]})
        meta.append(("stmts", "transform", None))
        cases.append({"src": "set p to pattern 'a' begin %s return '' == (%s) end\nfind all p" % (pre, e), "texts": ["a", "aa"]})
        meta.append(("stmts", "predicate", None))
        cases.append({"src": "set p to pattern 'a' begin %s if (%s) == 1 then return true end return false end\nfind all p" % (pre, e), "texts": ["a"]})
        meta.append(("stmts", "predicate", None))
    # several definitions in one program: each is checked in its own environment (a name assigned in one is an unknown name, hence a string, in the others)
    for _ in range(300 if quick else 4000):
        defs, uses = [], []
        for i in range(rng.choice([2, 2, 3])):
            ctxkind = rng.choice(["transform", "predicate"])
            body = stmt_shapes(rng, 1, ctxkind)[0]
            if ctxkind == "transform":
                defs.append("set f%d to transform %s end" % (i, body))
            else:
                defs.append("set p%d to pattern 'a' begin %s end" % (i, body))
                uses.append("p%d" % i)
        src = "\n".join(defs) + "\nfind all " + (" ".join(uses) if uses else "'a'")
        cases.append({"src": src, "texts": [] if "loop end" in src else ["a", "aaa"]})
        meta.append(("stmts", "several definitions", None))
    gres, dis, stats = corr_core.run_core(cases, shards=12, spec=False)
    def known(case, d):
        k = known_core(case, d)
        if k:
            return k
        if "SHOULDN'T GET HERE" in str(d.get("go")) and "undefop" in str(d.get("model")):
            return "K24"
        return None
    report_core_disagreements(ctx, cases, dis, in_scope=lambda c, d: True, known=known)
    ev = 0
    nt = set()
    for c, g, (kind, key, ok) in zip(cases, gres, meta):
        if "ast" not in g:
            continue
        ev += 1
        accepted = "bc" in g
        if kind == "cell":
            if accepted != ok and "panic" not in g:
                ctx.violation("operator cell %s is %s but the documented table %s it" % (key, "accepted" if accepted else "rejected", "lists" if ok else "does not list"),
                              {"source": c["src"], "error": g.get("err")})
            nt.add(key)
        else:
            nt.add(c["src"])
    # number literals at and beyond the limits of the integer type are numbers like any other (implementation only: the extracted model is kept away from long numerals)
    bigs = ["9223372036854775807", "9223372036854775808", "18446744073709551616", "99999999999999999999", "000000000000000000001", "2147483648", "4294967296"]
    bcases, bmeta = [], []
    for big in bigs:
        for uop in ("head", "tail", "not"):
            bcases.append({"op": "e2e", "src_hex": vh.hexs("set f to transform return '' + (%s %s) end\nreplace all 'a' with f" % (uop, big))})
            bmeta.append(("%s %s" % (uop, big), False))
        for op in OPS:
            for rk in "snb":
                for side in ("l", "r"):
                    le, re_ = (big, EXPRS[rk][0]) if side == "l" else (EXPRS[rk][0], big)
                    lk2, rk2 = ("n", rk) if side == "l" else (rk, "n")
                    exp = doc_table(op, REP[lk2], REP[rk2])
                    e = "(%s) %s (%s)" % (le, op, re_)
                    if exp is not None and exp != "div0" and exp[0] == "b":
                        src = "set p to pattern 'a' begin return %s end\nfind all p" % e
                    else:
                        src = "set f to transform return %s end\nreplace all 'a' with f" % e
                    bcases.append({"op": "e2e", "src_hex": vh.hexs(src)})
                    bmeta.append((e, exp is not None))
    bres = vh.run_cases(bcases, shards=8)
    for (e, ok), c, r in zip(bmeta, bcases, bres):
        if "panic" in r:
            ctx.violation("Compile panics on a process expression with a long numeral", {"source": bytes.fromhex(c["src_hex"]).decode(), "panic": r["panic"][:200]})
            continue
        if "ast" not in r:
            continue
        ev += 1
        accepted = "bc" in r
        if accepted != ok:
            ctx.violation("expression %s with a long number literal is %s but the documented table %s it" % (e, "accepted" if accepted else "rejected", "lists" if ok else "does not list"),
                          {"source": bytes.fromhex(c["src_hex"]).decode(), "error": r.get("err")})
        nt.add(e)
    ctx.coverage["evaluations"] = ev
    ctx.coverage["distinct_nontrivial"] = len(nt)
    ctx.coverage["agreement"] = stats
    ctx.coverage["exhaustive_cells"] = True
    ctx.coverage["rule"] = ("every (operator, left type, right type) cell and every (unary operator, type) cell with several operand expressions per type: accept iff the documented table "
                            "lists it; statement lists of size 1..3 over set/if/loop/break/continue/return/debug in predicate and transform context: accept/reject and error class equal to "
                            "the model's checker; programs with two or three definitions sharing variable names; accepted programs are run; non-trivial = distinct cells / statement lists")
    ctx.sample({"source": cases[0]["src"]})
    ctx.sample({"source": cases[-1]["src"]})


def replay(ctx, obj):
    replay_core(ctx, obj)
