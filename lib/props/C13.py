"""C13: definitions are transparent; commands, runs and compilations are independent."""
from props.core import *

ASSUMPTIONS = ["transparency is checked for capture-free bodies, as the property says",
               "spec for this check = the implementation's own result on the written-out source / on the commands alone"]


def variants(rng, n):
    """(written-out, inline+calls, global) sources that must give identical matches"""
    out = []
    for _ in range(n):
        g = genprog.ProgGen(rng, allow_capture=False, allow_backref=False, allow_sub=False, allow_global=False,
                            allow_named=False, max_depth=2)
        g.reset_cmd()
        B = g.exprs(1)
        k = rng.choice([1, 2, 2, 3])
        pre = rng.choice(["", "'a' ", "maybe 'b' ", "line start "])
        suf = rng.choice(["", " 'c'", " maybe 'a'", " word end"])
        ctxk = rng.choice(["seq", "seq", "loop", "alt"])
        def wrap(first, others):
            refs = [first] + others
            if ctxk == "seq":
                body = " ".join(refs)
            elif ctxk == "loop":
                body = "at least 1 (%s)" % " ".join(refs)
            else:
                body = "(%s) or ('zz')" % " ".join(refs)
            return "%s%s%s" % (pre, body, suf)
        written = "find all " + wrap("(%s)" % B, ["(%s)" % B] * (k - 1))
        if ctxk == "loop":
            # inside an unrolled loop body a subroutine definition would be generated twice: use the global form only
            inline = None
        else:
            inline = "find all " + wrap("{%s} = s" % B, ["s"] * (k - 1))
        glob = "set g to pattern %s\nfind all %s" % (B, wrap("g", ["g"] * (k - 1)))
        glob2 = "set g to pattern %s\nfind all 'q'\nfind all %s\nfind all %s" % (B, wrap("g", ["g"] * (k - 1)), wrap("g", ["g"] * (k - 1)))
        texts = [genprog.gen_text(rng, "abc", 10) for _ in range(6)]
        out.append({"B": B, "written": written, "inline": inline, "global": glob, "global_multi": glob2, "texts": texts})
    return out


def run(ctx):
    quick = ctx.quick()
    rng = ctx.rng
    vs = variants(rng, 250 if quick else 5000)
    cases = []
    idx = []
    for v in vs:
        for k in ("written", "inline", "global", "global_multi"):
            if v[k]:
                idx.append((v, k, len(cases)))
                cases.append({"src": v[k], "texts": v["texts"]})
    gres, dis, stats = corr_core.run_core(cases, shards=12, spec=True)
    report_core_disagreements(ctx, cases, dis, in_scope=in_scope_core, known=known_core)
    ev = 0
    nt = set()
    byv = {}
    for v, k, i in idx:
        byv.setdefault(id(v), {})[k] = gres[i]
    for v in vs:
        rs = byv[id(v)]
        w = rs["written"]
        if "matches_list" not in w:
            continue
        for k in ("inline", "global", "global_multi"):
            if k not in rs or "matches_list" not in rs[k]:
                if k in rs and "err" in rs[k] and "err" not in w:
                    ctx.violation("naming the body changes acceptance (%s form rejected, written-out form accepted)" % k,
                                  {"written": v["written"], "named": v[k], "error": rs[k].get("err")})
                continue
            for ti, t in enumerate(v["texts"]):
                ev += 1
                exp = parse_matches(w["matches_list"][ti])
                if k == "global_multi":
                    # third and fourth command: each must equal the written-out result
                    per = rs[k].get("percmd_list")
                    if not per or ti >= len(per):
                        continue
                    got_list = [parse_matches(per[ti][2]), parse_matches(per[ti][3])]
                else:
                    got_list = [parse_matches(rs[k]["matches_list"][ti])]
                for got in got_list:
                    # variables: the named forms report none, the written-out one none either (capture-free)
                    if [m[:9] for m in got] != [m[:9] for m in exp]:
                        ctx.violation("naming a capture-free body changes what it matches (%s form)" % k,
                                      {"body": v["B"], "written": v["written"], "named": v[k], "text": t,
                                       "written_matches": w["matches_list"][ti], "named_matches": model.to_sexp(got)})
                    elif exp:
                        nt.add((v["written"], k, t))
    # histories: compile twice, run, run again in another order, run the second compilation
    hc = []
    for i in range(150 if quick else 3000):
        g = genprog.ProgGen(rng)
        src = g.program()
        hc.append({"op": "hist", "src_hex": vh.hexs(src), "texts_hex": [vh.hexs(genprog.gen_text(rng)) for _ in range(4)], "_src": src})
    hres = vh.run_cases([{k: v for k, v in c.items() if k != "_src"} for c in hc], shards=8)
    for c, r in zip(hc, hres):
        if "first" not in r:
            continue
        ev += len(r["first"])
        if not (r["first"] == r["again"] == r["other"]):
            ctx.violation("repeated runs / a second compilation of the same source give different results",
                          {"source": c["_src"], "first": r["first"], "again": r["again"], "other": r["other"]})
        if model.canon_loop_ids(r.get("bc", "")) != model.canon_loop_ids(r.get("bc2", "")) or \
           model.canon_loop_ids(r.get("bc", "")) != model.canon_loop_ids(r.get("bc_after", "")):
            ctx.violation("bytecode differs between two compilations of one source, or was modified by running it",
                          {"source": c["_src"], "bc": r.get("bc"), "bc2": r.get("bc2"), "bc_after": r.get("bc_after")})
    ctx.coverage["evaluations"] = ev + stats["attempt_texts"]
    ctx.coverage["distinct_nontrivial"] = len(nt)
    ctx.coverage["agreement"] = stats
    ctx.coverage["rule"] = ("capture-free bodies B x contexts (prefix, suffix, inside a loop / an alternation) x 1..3 references: written out vs {B}=s with calls vs "
                            "set g to pattern B, alone and in a 4-command source sharing the definition; per-command results vs the commands run alone (concatenation); "
                            "histories compile-twice / run-twice-in-another-order; non-trivial = distinct (source, form, text) with a match")
    ctx.sample({"written": vs[0]["written"], "global": vs[0]["global"], "text": vs[0]["texts"][0]})


def replay(ctx, obj):
    print(obj)
