"""C13: definitions are transparent; commands, runs and compilations are independent."""
from props.core import *

ASSUMPTIONS = ["transparency is checked for capture-free bodies, as the property says",
               "spec for this check = the implementation's own result on the written-out source / on the commands alone"]


def variants(rng, n):
    """(written-out, inline+calls, global) sources that must give identical matches"""
    out = []
    for _ in range(n):
        with_subs = rng.random() < 0.35
        g = genprog.ProgGen(rng, allow_capture=False, allow_backref=False, allow_sub=with_subs, allow_global=False,
                            allow_named=False, max_depth=2)
        g.reset_cmd()
        B = g.exprs(1)
        if with_subs and "{" not in B:
            B = B + " " + g.subroutine(1) + rng.choice(["", " s1", " 'a'"])
        k = 1 if "{" in B else rng.choice([1, 2, 2, 3])
        pre = rng.choice(["", "'a' ", "maybe 'b' ", "line start "])
        suf = rng.choice(["", " 'c'", " maybe 'a'", " word end"])
        ctxk = rng.choice(["seq", "seq", "loop", "alt", "bounded-alt", "bounded-maybe", "maybe-alt", "bounded-last"])
        def wrap(first, others):
            refs = [first] + others
            if ctxk == "seq":
                body = " ".join(refs)
            elif ctxk == "loop":
                body = "at least 1 (%s)" % " ".join(refs)
            # a bounded loop that is not unrolled, with a choice point before or after the reference (the loop must still be recognised as the same loop after backtracking)
            elif ctxk == "bounded-alt":
                body = "at most 2 ((%s 'b') or 'c')" % " ".join(refs)
            elif ctxk == "bounded-maybe":
                body = "at most 2 (maybe (%s) 'c')" % " ".join(refs)
            elif ctxk == "maybe-alt":
                body = "maybe ((%s 'b') or 'c')" % " ".join(refs)
            elif ctxk == "bounded-last":
                body = "between 0 and 2 ('c' or (%s))" % " ".join(refs)
            else:
                body = "(%s) or ('zz')" % " ".join(refs)
            return "%s%s%s" % (pre, body, suf)
        written = "find all " + wrap("(%s)" % B, ["(%s)" % B] * (k - 1))
        if ctxk in ("loop",):
            # inside an unrolled loop body a subroutine definition would be generated twice: use the global form only
            inline = None
        else:
            inline = "find all " + wrap("{%s} = s" % B, ["s"] * (k - 1))
        glob = "set g to pattern %s\nfind all %s" % (B, wrap("g", ["g"] * (k - 1)))
        glob2 = "set g to pattern %s\nfind all 'q'\nfind all %s\nfind all %s" % (B, wrap("g", ["g"] * (k - 1)), wrap("g", ["g"] * (k - 1)))
        texts = [genprog.gen_text(rng, "abc", 10) for _ in range(6)] + (["ccc", "cacac", "cc", "acbcc", "ccabcc"] if ctxk.startswith(("bounded", "maybe")) else [])
        out.append({"B": B, "written": written, "inline": inline, "global": glob, "global_multi": glob2, "texts": texts})
    return out


def run(ctx):
    quick = ctx.quick()
    rng = ctx.rng
    vs = variants(rng, 250 if quick else 5000)
    cases = []
    idx = []
    for v in vs:
        for k in ("written", "inline", "global", "global_multi"):
            if v[k]:
                idx.append((v, k, len(cases)))
                cases.append({"src": v[k], "texts": v["texts"]})
    # bodies that can match the empty string, referenced several times (the second and later references are calls), reached at every position
    # up to and including the END of the text
    for B in ("maybe 'a'", "at most 2 'a'", "at least 0 'a'", "line end", "word end", "maybe 'a' maybe 'b'", "'' ", "file end", "at least 0 ('a' or 'b') fewest"):
        for form in ("%(r)s 'x' %(r)s", "%(r)s %(r)s", "'x' %(r)s %(r)s", "letter %(r)s ' ' letter %(r)s", "%(r)s 'x' %(r)s 'y' %(r)s", "maybe (%(r)s 'x') %(r)s 'y' %(r)s"):
            v = {"B": B, "texts": ["x", "", "a", "xa", "ax", "a b", "axy", "xy", "y", "xxa", "ab"],
                 "written": "find all " + form % dict(r="(%s)" % B), "inline": None,
                 "global": "set g to pattern %s\nfind all %s" % (B, form % dict(r="g")),
                 "global_multi": "set g to pattern %s\nfind all 'q'\nfind all %s\nfind all %s" % (B, form % dict(r="g"), form % dict(r="g"))}
            first = form % dict(r="@")
            v["inline"] = "find all " + first.replace("@", "{%s} = s" % B, 1).replace("@", "s")
            vs.append(v)
            for k in ("written", "inline", "global", "global_multi"):
                idx.append((v, k, len(cases)))
                cases.append({"src": v[k], "texts": v["texts"]})
    gres, dis, stats = corr_core.run_core(cases, shards=12, spec=True)
    report_core_disagreements(ctx, cases, dis, in_scope=in_scope_core, known=known_core)
    ev = 0
    nt = set()
    byv = {}
    for v, k, i in idx:
        byv.setdefault(id(v), {})[k] = gres[i]
    for v in vs:
        rs = byv[id(v)]
        w = rs["written"]
        if "matches_list" not in w:
            continue
        for k in ("inline", "global", "global_multi"):
            if k not in rs or "matches_list" not in rs[k]:
                if k in rs and "err" in rs[k] and "err" not in w:
                    ctx.violation("naming the body changes acceptance (%s form rejected, written-out form accepted)" % k,
                                  {"written": v["written"], "named": v[k], "error": rs[k].get("err")})
                continue
            for ti, t in enumerate(v["texts"]):
                ev += 1
                exp = parse_matches(w["matches_list"][ti])
                if k == "global_multi":
                    # third and fourth command: each must equal the written-out result
                    per = rs[k].get("percmd_list")
                    if not per or ti >= len(per):
                        continue
                    got_list = [parse_matches(per[ti][2]), parse_matches(per[ti][3])]
                else:
                    got_list = [parse_matches(rs[k]["matches_list"][ti])]
                for got in got_list:
                    # variables: the named forms report none, the written-out one none either (capture-free)
                    if [m[:9] for m in got] != [m[:9] for m in exp]:
                        ctx.violation("naming a capture-free body changes what it matches (%s form)" % k,
                                      {"body": v["B"], "written": v["written"], "named": v[k], "text": t,
                                       "written_matches": w["matches_list"][ti], "named_matches": model.to_sexp(got)})
                    elif exp:
                        nt.add((v["written"], k, t))
    # multi-command sources (find and replace mixed, shared definitions, reused inline names): every
    # command must behave as it does alone with its definitions
    mc = []
    for i in range(200 if quick else 4000):
        g = genprog.ProgGen(rng, allow_named=False)
        g.features = set(); g.globals = []; g.transforms = []
        defs = []
        for _ in range(rng.choice([0, 1, 1, 2])):
            g.reset_cmd()
            nm = "p%d" % (len(g.globals) + 1)
            defs.append("set %s to pattern %s" % (nm, g.exprs(1)))
            g.globals.append(nm)
        if rng.random() < 0.3:
            defs.append(g.transform())
        cmds = []
        for _ in range(rng.choice([2, 2, 3])):
            c = g.command()
            if rng.random() < 0.5:
                g.reset_cmd()
                c = "replace all %s with 'R' value" % g.exprs(0)
            if g.globals and rng.random() < 0.6:
                c = c.replace(" all ", " all %s " % rng.choice(g.globals), 1) if " all " in c else c
            cmds.append(c)
        texts = [genprog.gen_text(rng, "abc", 10) for _ in range(4)]
        mc.append({"defs": defs, "cmds": cmds, "texts": texts})
    mcases = []
    for m in mc:
        mcases.append({"src": "\n".join(m["defs"] + m["cmds"]), "texts": m["texts"]})
        for c in m["cmds"]:
            mcases.append({"src": "\n".join(m["defs"] + [c]), "texts": m["texts"]})
    mg, mdis, mstats = corr_core.run_core(mcases, shards=12, spec=False)
    report_core_disagreements(ctx, mcases, mdis, in_scope=in_scope_core, known=known_core)
    pos = 0
    for m in mc:
        whole = mg[pos]
        alone = mg[pos + 1: pos + 1 + len(m["cmds"])]
        src_whole = mcases[pos]["src"]
        pos += 1 + len(m["cmds"])
        ok_alone = all("bc" in a for a in alone)
        if ("bc" in whole) != ok_alone and not any(x.get("panic") for x in [whole] + alone):
            if all(("err" in a and a.get("errclass") == "gen") or "bc" in a for a in alone) and ("bc" in whole or whole.get("errclass") == "gen"):
                ctx.violation("a multi-command source is accepted/rejected differently from its commands taken alone with their definitions",
                              {"source": src_whole, "whole_error": whole.get("err"), "alone_errors": [a.get("err") for a in alone]})
            continue
        if "percmd_list" not in whole and "matches_list" not in whole:
            continue
        nd = len(m["defs"])
        # per-command results of the whole source: rerun with percmd through a dedicated call
        for ti, t in enumerate(m["texts"]):
            cat = []
            good = True
            for a in alone:
                if "matches_list" not in a or ti >= len(a["matches_list"]):
                    good = False
                    break
                cat += parse_matches(a["matches_list"][ti])
            if not good or "matches_list" not in whole or ti >= len(whole["matches_list"]):
                continue
            ev += 1
            if parse_matches(whole["matches_list"][ti]) != cat:
                ctx.violation("the result of a multi-command source is not the concatenation of its commands taken alone with their definitions",
                              {"source": src_whole, "text": t, "whole": whole["matches_list"][ti], "concatenation_of_alone": model.to_sexp(cat)})
                break
            elif cat:
                nt.add((src_whole, "multi", t))
    # histories: compile twice (other sources, possibly rejected, compiled in between), run, run again in another order
    hc = []
    junk = ["find all @/(x|(y)/", "find all @/(a)(b)/ 'c", "set q to pattern {'a'} = s s\nfind all q", "find all ((", "find all @/((a)b)+/"]
    for i in range(150 if quick else 3000):
        g = genprog.ProgGen(rng)
        src = g.program()
        if rng.random() < 0.4:
            src += "\nfind all " + rng.choice(["@/(a|b)c\\1/", "@/(a)(b)?/", "@/((a)b)\\2/"])
        hc.append({"op": "hist", "src_hex": vh.hexs(src), "texts_hex": [vh.hexs(genprog.gen_text(rng)) for _ in range(4)],
                   "between_hex": [vh.hexs(rng.choice(junk)) for _ in range(rng.choice([0, 1, 2]))], "_src": src})
    hres = vh.run_cases([{k: v for k, v in c.items() if k != "_src"} for c in hc], shards=8)
    for c, r in zip(hc, hres):
        if "first" not in r:
            continue
        ev += len(r["first"])
        if not (r["first"] == r["again"] == r["other"]):
            ctx.violation("repeated runs / a second compilation of the same source give different results",
                          {"source": c["_src"], "compiled_in_between": [bytes.fromhex(x).decode("latin-1") for x in c.get("between_hex", [])],
                           "first": r["first"], "again": r["again"], "other": r["other"]})
        if model.canon_loop_ids(r.get("bc", "")) != model.canon_loop_ids(r.get("bc2", "")) or \
           model.canon_loop_ids(r.get("bc", "")) != model.canon_loop_ids(r.get("bc_after", "")):
            ctx.violation("bytecode differs between two compilations of one source, or was modified by running it",
                          {"source": c["_src"], "compiled_in_between": [bytes.fromhex(x).decode("latin-1") for x in c.get("between_hex", [])],
                           "bc": r.get("bc"), "bc2": r.get("bc2"), "bc_after": r.get("bc_after")})
        if "second_compile_failed" in r:
            ctx.violation("a source accepted once is rejected when compiled again", {"source": c["_src"],
                          "compiled_in_between": [bytes.fromhex(x).decode("latin-1") for x in c.get("between_hex", [])]})
    ctx.coverage["evaluations"] = ev + stats["attempt_texts"]
    ctx.coverage["distinct_nontrivial"] = len(nt)
    ctx.coverage["agreement"] = stats
    ctx.coverage["rule"] = ("capture-free bodies B x contexts (prefix, suffix, inside a loop / an alternation / a bounded loop with a choice point before or after the reference) x 1..3 references: written out vs {B}=s with calls vs "
                            "set g to pattern B, alone and in a 4-command source sharing the definition; per-command results vs the commands run alone (concatenation); "
                            "histories compile-twice / run-twice-in-another-order; non-trivial = distinct (source, form, text) with a match")
    ctx.sample({"written": vs[0]["written"], "global": vs[0]["global"], "text": vs[0]["texts"][0]})


def replay(ctx, obj):
    print(obj)
