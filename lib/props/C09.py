"""C09: running an accepted program never crashes, whatever the input."""
from props.core import *

ASSUMPTIONS = ["file side (RunFiles, readers) is exercised by C06/C07; here Run on strings",
               "known findings: integer division by zero in process code (K23); a process variable whose static type depends on the branch taken (K24)"]

K24 = "process variable assigned different types on different branches reaches an undefined operation (SHOULDN'T GET HERE) [K24]"


def known(case, d):
    k = known_core(case, d)
    if k:
        return k
    if "SHOULDN'T GET HERE" in str(d.get("go")) and "undefop" in str(d.get("model")):
        return K24
    return None


def run(ctx):
    quick = ctx.quick()
    rng = ctx.rng
    # every prefix of the texts: inputs that end in the middle of every construct; empty input
    extra = []
    for i in range(150 if quick else 3000):
        g = genprog.ProgGen(rng)
        src = g.program()
        t = genprog.gen_text(rng, "abc", 10)
        extra.append({"src": src, "texts": [t[:k] for k in range(len(t) + 1)]})
    extra.append({"src": "set f to transform if match == 'a' then set x to true else set x to 'q' end return x - 1 end\nreplace all any with f",
                  "texts": ["a", "b"]})
    extra.append({"src": "set f to transform return 1 / 0 end\nreplace all 'a' with f", "texts": ["a"]})
    for c in extra[-2:]:
        pass
    cases = [{"src": c["src"], "texts": c["texts"]} for c in load_corpus()] + extra
    for i in range(300 if quick else 6000):
        g = genprog.ProgGen(rng)
        cases.append({"src": g.program(), "texts": [genprog.gen_text(rng) for _ in range(5)] + [""]})
    gres, dis, stats = corr_core.run_core(cases, shards=12, spec=False)
    # any panic/hang of the implementation on an accepted program is a violation of C09 itself
    def scope(case, d):
        return d["layer"].startswith("IMPL-") or in_scope_core(case, d)
    report_core_disagreements(ctx, cases, dis, in_scope=scope, known=known)
    ctx.coverage["evaluations"] = stats["attempt_texts"]
    ctx.coverage["distinct_nontrivial"] = len({(c["src"], t) for c in cases for t in c["texts"]}) if len(cases) < 20000 else stats["attempt_texts"]
    ctx.coverage["agreement"] = stats
    ctx.coverage["rule"] = ("accepted programs (generated + corpus) x every prefix of a text and the empty text; a panic, fatal error or hang of Run is a "
                            "violation (known findings matched by panic message + model crash class); non-trivial = distinct (program,text)")
    ctx.sample({"source": cases[-1]["src"], "texts": cases[-1]["texts"][:3]})


def replay(ctx, obj):
    replay_core(ctx, obj)
