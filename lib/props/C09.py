"""C09: running an accepted program never crashes, whatever the input."""
from props.core import *

ASSUMPTIONS = ["file side (RunFiles, readers) is exercised by C06/C07; here Run on strings",
               "known findings: integer division by zero in process code (K23); a process variable whose static type depends on the branch taken (K24)"]

K24 = "process variable assigned different types on different branches reaches an undefined operation (SHOULDN'T GET HERE) [K24]"


def known(case, d):
    k = known_core(case, d)
    if k:
        return k
    if "SHOULDN'T GET HERE" in str(d.get("go")) and "undefop" in str(d.get("model")):
        return K24
    return None


def run(ctx):
    quick = ctx.quick()
    rng = ctx.rng
    # every prefix of the texts: inputs that end in the middle of every construct; empty input
    extra = []
    for i in range(150 if quick else 12000):
        g = genprog.ProgGen(rng)
        src = g.program()
        t = genprog.gen_text(rng, "abc", 10)
        extra.append({"src": src, "texts": [t[:k] for k in range(len(t) + 1)]})
    # boundary templates: references to captures that may be unbound or empty, transforms applied
    # to arbitrary (empty, one-byte, non-numeric, huge) match text
    caps = ["maybe (%s = v) %s v", "((%s = v) or %s) v", "at least 0 (%s = v) %s v v", "maybe ({%s = v} = s) %s v",
            "(maybe %s) = v %s v", "maybe (%s = v 'q') %s v 'b'", "(%s = v or %s) maybe v"]
    for i in range(60 if quick else 3000):
        a = rng.choice(["'a'", "'x'", "letter", "any", "digit"])
        b = rng.choice(["'a'", "'b'", "letter", "any"])
        src = "find all " + rng.choice(caps) % (a, b)
        extra.append({"src": src, "texts": ["", "a", "b", "xa", "xax", "aa", "bb", "ab", "ba1", genprog.gen_text(rng, "abx", 6)]})
    pex = ["tail match", "tail tail match", "head tail match", "tail head match", "head head match", "tail tail tail match",
           "match + 1", "match - 1", "match * 2", "match / 2", "match % 3", "match + match", "(match + 0) / 7", "0 - match",
           "match < 'b'", "match == ''", "not (match == 'a')", "(tail match) == ''", "matchLength / 2", "matchLength % 2",
           "matchNumber - 1", "head match + tail match", "(match * match) * match", "match - 9223372036854775807"]
    for e in pex:
        for body in ["any", "at least 1 digit", "between 1 and 3 any", "at least 1 any", "letter maybe '-'"]:
            boolish = any(op in e for op in ["<", "==", "not "])
            if boolish:
                src = "set f to transform if %s then return 'T' end return 'F' end\nreplace all %s with f" % (e, body)
            else:
                src = "set f to transform return %s end\nreplace all %s with f" % (e, body)
            extra.append({"src": src, "texts": ["a", "ab", "7", "12", "-3", "99999999999999999999", "a1", "", "x-", "0",
                                                # matches that are not text: stray and truncated bytes in front of, behind and instead of characters (head and tail work on bytes)
                                                "\xffa", "\x80a", "\xc3a", "\xe2\x82", "a\xff", "\xc3\xa9", "\xc3\xa9\xc3", "\xf0\x9fa", "\xff\xff\xff", "\xe2\x82\xac5"]})
            if boolish:
                extra.append({"src": "set p to pattern %s begin return %s end\nfind all p" % (body, e), "texts": ["a", "ab", "7", "", "b1"]})
    # every name the run-time environments define (and an undefined one) under every operator against every operand type, in a transform and in a predicate:
    # what Compile accepts must run (the checker types names it does not know as strings; the two environments define different names)
    names = ["match", "matchLength", "matchNumber", "nosuchname"]
    others = ["1", "0", "'2'", "'x'", "''", "true", "match", "matchLength", "matchNumber", "head match"]
    ops = ["+", "-", "*", "/", "%", "==", "!=", "<", ">", "<=", ">=", "and", "or"]
    combos = [(n, op, o) for n in names for op in ops for o in others]
    if quick:
        combos = [c for c in combos if c[0] == "matchNumber" or c[2] == "matchNumber"] + rng.sample(combos, 120)
    for n, op, o in combos:
        for lhs, rhs in ((n, o), (o, n)):
            e = "%s %s %s" % (lhs, op, rhs)
            extra.append({"src": "set f to transform return '' + (%s) end\nreplace all at least 1 digit with f" % e, "texts": ["7", "12 0", "x"]})
            extra.append({"src": "set p to pattern at least 1 digit begin return (%s) == 0 end\nfind all p" % e, "texts": ["7", "12 0", "x"]})
            extra.append({"src": "set p to pattern at least 1 digit begin return '' == (%s) end\nfind all p" % e, "texts": ["7", "x"]})
    for n in names:
        for u in ("head", "tail", "not"):
            extra.append({"src": "set f to transform return '' + (%s %s) end\nreplace all at least 1 digit with f" % (u, n), "texts": ["7", "12 0"]})
            extra.append({"src": "set p to pattern at least 1 digit begin return '' == (%s %s) end\nfind all p" % (u, n), "texts": ["7", "12 0"]})
    extra.append({"src": "set f to transform if match == 'a' then set x to true else set x to 'q' end return x - 1 end\nreplace all any with f",
                  "texts": ["a", "b"]})
    extra.append({"src": "set f to transform return 1 / 0 end\nreplace all 'a' with f", "texts": ["a"]})
    # every amount clause on replace commands over texts with many matches: the list handed to the writer is in text order whatever window was asked for
    for am in ["all"] + ["%s %d" % (k, n) for k in ("last", "top", "take", "skip") for n in (1, 2, 3, 4, 5)] + ["skip 2 take 3", "skip 1 take 1"]:
        for body in ("'a'", "at least 1 'a'", "'a' or 'b'"):
            extra.append({"src": "replace %s %s with 'b' value" % (am, body), "texts": ["aaaa", "aaaaaaa", "ababababab", "a", "", "aaaaa aaaa"]})
    # captures NAMED LIKE the names the run-time environments define: a capture is a string whatever it is called, the built-in keeps its own type; what the
    # checker accepted for the built-in must run when a capture of that name exists as well
    bnames = ["match", "matchLength", "matchNumber", "totalMatches", "value", "startOffset", "endOffset", "lineNumber", "columnNumber", "filename"]
    bexprs = ["%s * %s", "%s %% %s", "match - %s", "%s - 1", "%s + 1", "2 * %s", "%s / 2", "head %s", "%s == %s", "matchLength * %s", "%s * matchLength", "'' + %s"]
    for nm in bnames:
        for e in (bexprs if not quick else rng.sample(bexprs, 5) + ["%s * %s", "match - %s"]):
            ex = e % ((nm,) * e.count("%s"))
            extra.append({"src": "set f to transform return '' + (%s) end\nreplace all (at least 1 digit) = %s with f" % (ex, nm), "texts": ["ab 123", "7", "x", "10 20"]})
            extra.append({"src": "set f to transform return '' + (%s) end\nreplace all at least 1 ((digit) = %s) with f %s" % (ex, nm, nm), "texts": ["ab 123", "7"]})
            extra.append({"src": "set p to pattern (at least 1 digit) = %s begin return ('' + (%s)) != 'q' end\nfind all p" % (nm, ex), "texts": ["ab 123", "7"]})
    # process code that leaves something behind: transforms referenced several times in one replacement list, predicates asked several times in one attempt;
    # every call starts from the environment the checker assumed (unknown names are strings, match is the match text)
    stateful = ["set out to seen + match set seen to out == match return out", "set out to seen + match set seen to true return out",
                "set r to match + n set n to matchLength > 0 return r", "set r to '' + match set match to match == 'a' return r",
                "set r to '' + matchLength set matchLength to true return r", "set r to '' + matchNumber set matchNumber to false return r",
                "set r to seen - 1 set seen to 'x' < 'y' return '' + r", "if seen == '' then set seen to true return 'first' end return seen + 'again'"]
    for i, body in enumerate(stateful):
        other = stateful[(i + 3) % len(stateful)]
        head = "set f to transform %s end\nset g to transform %s end\n" % (body, other)
        for repl in ("f '-' f", "f f f", "f g", "g f g", "f value f"):
            extra.append({"src": head + "replace all letter with " + repl, "texts": ["xax", "a", "ab", "", "a1b"]})
        extra.append({"src": "set p to pattern letter begin %s end\nfind all p p" % body.replace("return out", "return out == out").replace("return r", "return r == r").replace("return '' + r", "return true").replace("return 'first'", "return true").replace("return seen + 'again'", "return false"),
                      "texts": ["xax", "ab", ""]})
    # inputs that end in the middle of a multi-byte character, stray lead and continuation bytes (implementation alone: the model is about bytes, these are about the scan)
    bprogs = ["find all 'z'", "find all at least 1 letter", "find all maybe 'a'", "find all any", "find all not 'a'", "find all at least 0 (line start)", "find all word start at least 1 letter word end",
              "replace all 'b' with 'B'", "find all whole line", "find all (any = x) maybe x", "find all in 'a' to 'z'", "find all whitespace", "find all line end", "find last 1 any", "find all caseless 'CAF'"]
    bprogs += ["find all caseless 'caf\xc3\xa9'", "find all caseless '\xc3\xa9'", "find all caseless '\xce\xb1\xce\xb2'", "find all caseless '\xd0\xb4a'", "replace all caseless 'na\xc3\xafve' with 'x'",
               "find all caseless '\xff'", "find all caseless 'a\xc3'"]
    ctx.coverage["hostile_byte_runs"] = impl_only_runs(ctx, bprogs, HOSTILE_TAILS + [t[:k] for t in HOSTILE_TAILS[:6] for k in range(len(t))] +
                                                       ["CAF\xc3\x89 caf\xc3\xa9", "\xc3\x89", "\xce\x91\xce\x92 \xce\xb1\xce\xb2", "\xd0\x94A \xd0\xb4a", "NA\xc3\x8fVE", "\xdf \xff \x9f", "A\xe3 a\xc3"], "C09")
    cases = [{"src": c["src"], "texts": c["texts"]} for c in load_corpus()] + extra
    for i in range(300 if quick else 30000):
        g = genprog.ProgGen(rng)
        cases.append({"src": g.program(), "texts": [genprog.gen_text(rng) for _ in range(5)] + [""]})
    gres, dis, stats = corr_core.run_core(cases, shards=12, spec=False)
    # any panic/hang of the implementation on an accepted program is a violation of C09 itself
    def scope(case, d):
        return d["layer"].startswith("IMPL-") or in_scope_core(case, d)
    report_core_disagreements(ctx, cases, dis, in_scope=scope, known=known)
    # RunFiles (the other way to run a program): every mode, files around and well above the reader's 4096-byte window,
    # matches near the start / near the end / none; a panic, a fatal error or a hang is a violation
    def big(n, marks):
        b = bytearray(rng.choice(b"xyz.- \n") for _ in range(n))
        for off in marks:
            b[off:off + 6] = b"needle"
        return bytes(b).decode("latin-1")
    fcases, fmeta = [], []
    for content in ["", "needle", big(4096, [0]), big(4097, [4091]), big(9000, [0]), big(9000, [8994]), big(20000, []), big(12289, [6000])]:
        for mode in ("NEW", "OVERWRITE", "NOTHING"):
            for src in ("replace all 'needle' with 'N'", "find all 'needle'", "replace all 'needle' with value value"):
                if quick and rng.random() < 0.5:
                    continue
                fcases.append({"op": "files", "src_hex": vh.hexs(src), "files": [["f.txt", vh.hexs(content)]], "search": ["f.txt"], "mode": mode})
                fmeta.append((src, mode, len(content)))
    fres = vh.run_cases(fcases, shards=8, timeout_ms=20000)
    for (src, mode, n), r in zip(fmeta, fres):
        if "panic" in r or r.get("hang") or r.get("fatal") or r.get("oom"):
            ctx.violation("RunFiles of an accepted program panics or does not return", {"source": src, "mode": mode, "file_size": n, "outcome": str({k: v for k, v in r.items() if k != "stack"})[:300]})
    ctx.coverage["runfiles_cases"] = len(fcases)
    ctx.coverage["evaluations"] = stats["attempt_texts"]
    ctx.coverage["distinct_nontrivial"] = len({(c["src"], t) for c in cases for t in c["texts"]}) if len(cases) < 20000 else stats["attempt_texts"]
    ctx.coverage["agreement"] = stats
    ctx.coverage["rule"] = ("accepted programs (generated + corpus) x every prefix of a text and the empty text; a panic, fatal error or hang of Run is a "
                            "violation (known findings matched by panic message + model crash class); non-trivial = distinct (program,text)")
    ctx.sample({"source": cases[-1]["src"], "texts": cases[-1]["texts"][:3]})


def replay(ctx, obj):
    replay_core(ctx, obj)
