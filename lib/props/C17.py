"""C17: JSON output is valid and carries the match data unchanged."""
import json
from props.core import *

ASSUMPTIONS = ["encoding/json is modelled by the renderers of Model/Json.v (ASCII escaping rules; bytes >= 0x80 pass through); its behaviour on invalid UTF-8 (U+FFFD) is outside the model",
               "validity is judged by Python's json module; exact round trip of values is required only when the text is valid UTF-8"]


def hostile_text(rng):
    pool = ['a', 'b', '"', '\\', '\n', '\t', '\r', '\x00', '\x01', '\x1f', '\x7f', '<', '>', '&', "'", '/', ' ', 'é', 'ü', '€', ' ', '😀', '1', '\ufffd', '\u2028', '\u00a0']
    s = "".join(rng.choice(pool) for _ in range(rng.choice([0, 1, 3, 6, 10])))
    b = s.encode("utf-8")
    if rng.random() < 0.15:
        b = b + bytes([rng.choice([0xff, 0xc3, 0x80, 0xe2])]) + b"a"       # invalid UTF-8
    return b.decode("latin-1")


def is_utf8(b):
    try:
        b.decode("utf-8")
        return True
    except Exception:
        return False


def expected_doc(matches_sx, text_is_utf8):
    def val(v):
        if isinstance(v, str):
            return bytes.fromhex(v[1:])
        return {bytes.fromhex(k[1:]): val(x) for k, x in v}
    docs = []
    for m in parse_matches(matches_sx):
        d = {"filename": "text", "matchNumber": int(m[1]), "offset": {"start": int(m[2]), "end": int(m[3])},
             "line": {"start": int(m[4]), "end": int(m[5])}, "column": {"start": int(m[6]), "end": int(m[7])},
             "value": bytes.fromhex(m[8][1:]), "variables": val(m[10])}
        if m[9] != "none":
            d["replacement"] = bytes.fromhex(m[9][1:])
        docs.append(d)
    return docs


def same(doc, exp):
    """decoded JSON vs expected (bytes leaves compared through UTF-8 when valid, skipped otherwise)"""
    if isinstance(exp, bytes):
        if not isinstance(doc, str):
            return False
        return doc.encode("utf-8") == exp if is_utf8(exp) else True
    if isinstance(exp, dict):
        if not isinstance(doc, dict):
            return False
        ek = {}
        for k, v in exp.items():
            kk = k.decode("utf-8") if isinstance(k, bytes) and is_utf8(k) else k
            ek[kk] = v
        if any(isinstance(k, bytes) for k in ek):
            return len(doc) == len(ek)
        return set(doc) == set(ek) and all(same(doc[k], ek[k]) for k in ek)
    if isinstance(exp, list):
        return isinstance(doc, list) and len(doc) == len(exp) and all(same(a, b) for a, b in zip(doc, exp))
    return doc == exp


def run(ctx):
    quick = ctx.quick()
    rng = ctx.rng
    progs = ["find all any", "find all at least 1 (not 'b')", "find all 'zzz'", "replace all any with '<' value '\"'", "replace all in '\"', '\\\\' with 'x\\n'",
             "find all (any = x) maybe x", "find all at least 1 (any = c) named cs", "find all at least 1 ((any = c) maybe ('b' = d)) named outer 'b'",
             "find top 1 any", "replace all 'a' with nothingdefined", "replace all any with ''", "replace all 'a' with ''",
             "replace all (maybe 'a') = x 'b' with x", "replace all in 'a', '\"' with '' ''", "find all line start at least 0 any fewest line end",
             # captures of whole words: variable values that are valid UTF-8 with characters of 1, 2, 3 and 4 bytes
             "find all (at least 1 (not ' ')) = w", "find all (at least 2 any) = v maybe ' '", "replace all (at least 1 (not in ' ', 'a')) = w with w '|' w",
             "find all at least 1 ((at least 1 (not ' ')) = w maybe ' ') named ws", "find all (at least 1 any) = all"]
    # result lists that mix the matches of several commands, with and without a replacement, in both orders (one list is rendered as one document)
    mixed = ["replace all 'a' with 'X' find all any", "replace all any with '<' value '>' find all (any = x) maybe x", "find all any replace all any with '' find all any",
             "replace all 'zzz' with 'q' find all any", "replace all (maybe 'a') = x 'b' with x find all at least 1 (any = c) named cs replace all any with ''",
             "replace top 1 any with 'T' find top 2 any replace last 1 any with 'L' find last 1 any"]
    # names given as strings: loops called "0", "1", "10" (the keys of an iteration table are numbers too), names with quotes, backslashes, blanks, non-ASCII,
    # each next to sibling variables
    for nm in ('"0"', '"1"', '"10"', '"a b"', "'q\"uote'", '"back\\\\slash"', '"\xc3\xa9"', '"value"', '"matchNumber"'):
        mixed.append("find all at least 1 (letter = l) named %s digit = d" % nm)
        mixed.append("find all at least 1 ((at least 1 letter named %s) = w ' ') named \"0\" (digit = d)" % nm)
        mixed.append("replace all at least 1 (any = c) named %s with c" % nm)
    cases, meta = [], []
    for i in range(max(60, len(mixed) + 30) if quick else 6000):
        p = mixed[i] if i < len(mixed) else rng.choice(progs)
        if i >= len(mixed) and rng.random() < 0.3:
            g = genprog.ProgGen(rng)
            p = g.program()
        elif i >= len(mixed) and rng.random() < 0.3:
            p = " ".join(rng.choice(progs) for _ in range(rng.choice([2, 3, 4])))
        texts = [hostile_text(rng) for _ in range(5)] + [""]
        if i < len(mixed):
            texts += ["ab1", "x ab1 cd22 ", "a b 1", "banana band"]
        # the replacement character, line and paragraph separators, a byte order mark as TEXT: valid characters, rendered once and as themselves
        texts += ["a\xef\xbf\xbdb", "\xef\xbf\xbd", "\xef\xbf\xbd\xef\xbf\xbd a\xe2\x80\xa8b", "\xef\xbb\xbfa b"]
        cases.append({"op": "json", "src_hex": vh.hexs(p), "texts_hex": [vh.hexs(t) for t in texts]})
        meta.append((p, texts))
    res = vh.run_cases(cases, shards=8)
    lines = []
    for i, (r, (p, texts)) in enumerate(zip(res, meta)):
        if "ast" in r and "named" not in r["ast"]:
            lines.append("(j%d json %s (%s))" % (i, r["ast"], " ".join("h" + vh.hexs(t) for t in texts)))
    mres = model.run_model(lines, shards=8)
    ev = 0
    nt = 0
    for i, (r, (p, texts)) in enumerate(zip(res, meta)):
        if "panic" in r:
            if "integer divide by zero" in r["panic"] or "SHOULDN'T" in r["panic"]:
                continue
            ctx.violation("rendering the results as JSON panics", {"source": p, "panic": r["panic"], "texts": texts[:len(r.get("json", [])) + 1][-1:]})
            continue
        if "json" not in r:
            continue
        if r.get("single_json_diff"):
            ctx.violation("a match rendered on its own is not the document it is inside the list", {"source": p, "difference": r["single_json_diff"]})
        mo = model.parse_sexp(mres["j%d" % i]) if ("j%d" % i) in mres and mres["j%d" % i].startswith("(ok") else None
        for k, (cj, fj, msx) in enumerate(r["json"]):
            t = texts[k]
            ev += 1
            cb, fb = bytes.fromhex(cj), bytes.fromhex(fj)
            try:
                cd = json.loads(cb.decode("utf-8"))
                fd = json.loads(fb.decode("utf-8"))
            except Exception as e:
                ctx.violation("a JSON rendering does not parse as JSON (%s)" % e, {"source": p, "text": t, "compact": cb[:300].decode("latin-1")})
                continue
            if cd != fd:
                ctx.violation("compact and formatted JSON are different documents", {"source": p, "text": t})
                continue
            exp = expected_doc(msx, is_utf8(t.encode("latin-1")))
            if not same(cd, exp):
                ctx.violation("the JSON document does not carry the in-memory matches", {"source": p, "text": t, "json": cb[:400].decode("latin-1"), "matches": msx[:400]})
                continue
            if exp:
                nt += 1
            if mo is not None and mo[1][k] not in ("none", ["none"]) and len(mo[1][k]) == 2 and all(ord(ch) < 128 for ch in t):
                mc, mf = bytes.fromhex(mo[1][k][0][1:]), bytes.fromhex(mo[1][k][1][1:])
                if mc != cb or mf != fb:
                    ctx.corr_break("CORR-JSON", {"source": p, "text": t, "model_compact": mc[:200].decode("latin-1"), "go_compact": cb[:200].decode("latin-1"),
                                                 "formatted_equal": mf == fb})
    # file results: the filename field carries the in-memory Filename verbatim, however the path was spelled
    names = ["a.txt", "d1/b.txt", "d1/c d.txt", "sub/deep/e.txt", 'q"uote.txt', "x\\y.txt", "é.txt"]
    files = [[n, vh.hexs("aXbXa\nXa")] for n in names]
    # (directories given to RunFiles hold files only: a directory inside a searched directory is read as a file and panics - not part of this property)
    spellings = [["a.txt"], ["./a.txt"], [".//a.txt"], ["d1//b.txt"], ["d1/./b.txt"], ["sub/../d1/b.txt"], ["d1/"], ["d1"], ["./d1/"], ["d1//"], ["sub/deep/"], ["sub/deep"], ["./sub/./deep/"],
                 ["sub//deep"], ['q"uote.txt', "x\\y.txt", "é.txt"], ["a.txt", "./a.txt", "d1/../a.txt"]]
    spellings += [["a.txt", "d1/b.txt"], ["d1/b.txt", "a.txt"], ["a.txt", "d1/b.txt", "a.txt"], ["d1/", "a.txt", "d1/b.txt"]]
    fcases = [{"op": "jsonfiles", "src_hex": vh.hexs(p), "files": files, "search": sp}
              for p in ("find all 'a'", "replace all 'X' with '-'", "find all 'zzz'", "find all any = v",
                        # several commands: the result list (and so the document) is ordered command by command, within a command file by file
                        "find all 'a' find all 'X'", "replace all 'X' with '-' find all 'a' find all 'b'") for sp in spellings]
    fres = vh.run_cases(fcases, shards=4)
    fev = 0
    for c, r in zip(fcases, fres):
        rep = {"source": bytes.fromhex(c["src_hex"]).decode(), "searched": c["search"]}
        if "panic" in r or "json" not in r:
            ctx.violation("RunFiles + JSON rendering fails", dict(rep, outcome=str({k: v for k, v in r.items() if k != "stack"})[:300]))
            continue
        want = [bytes.fromhex(h).decode("utf-8", "replace") for h in r["filenames_hex"]]
        for which, hx_ in zip(("compact", "formatted"), r["json"]):
            try:
                doc = json.loads(bytes.fromhex(hx_).decode("utf-8"))
            except Exception as e:
                ctx.violation("a JSON rendering of file results does not parse (%s)" % e, rep)
                break
            got = [m.get("filename") for m in doc]
            fev += 1
            if got != want:
                bad = next((g, w) for g, w in list(zip(got, want)) + [(None, None)] if g != w)
                ctx.violation("the %s JSON does not carry the in-memory filename" % which,
                              dict(rep, json_filename=str(bad[0]).replace(r["dir"], "<dir>"), in_memory_filename=str(bad[1]).replace(r["dir"], "<dir>")))
                break
    ev += fev
    ctx.coverage["file_result_documents"] = fev
    ctx.coverage["evaluations"] = ev
    ctx.coverage["distinct_nontrivial"] = nt
    ctx.coverage["rule"] = ("result lists {empty, one, many} x {find, replace} x {flat, named-loop nested variables} over texts with quotes, backslashes, control characters, <>&, non-ASCII and "
                            "invalid UTF-8: Json() and FormattedJson() must parse (Python json), be equal documents, and decode to the in-memory matches (exactly for valid UTF-8); byte-for-byte "
                            "comparison with the model's renderers on valid UTF-8; RunFiles over path spellings (./, //, /./, /../, trailing /, directories, quotes/backslashes/non-ASCII in names): the filename field equals the in-memory Filename; non-trivial = non-empty result lists")
    ctx.sample({"source": meta[0][0], "text": meta[0][1][0]})


def replay(ctx, obj):
    print(obj)
