"""C01: find results equal the backtracking semantics of the pattern as written."""
import itertools
from props.core import *
from props.common import E2, E3, E4, MB_TEXTS

ASSUMPTIONS = [
    "atoms (literals, classes, anchors, ranges) have the implementation's semantics in model and specification alike (Model/Atoms.v); their tie to the Go code is the correspondence",
    "scope of the refinement theorem: unnamed loops; `between m and n` with m <= n; caseless literals ASCII; programs whose process code does not crash",
    "name resolution and unrolling (Model/Gen.v resolve) are part of the model: validated against the Go generator by bytecode equality on every case",
]
TRUSTED_EXTRA = ["Spec/Sem.v (ordered-outcomes semantics), Spec/FindSpec.v (scan) as the reading of 'backtracking semantics in priority order'"]

ATOMS = ["'a'", "'b'", "'ab'", "any", "digit", "not 'a'", "in 'a', 'b'", "not in 'a'", "line start", "line end", "word start", "''",
         "in 'x', 'a', 'ab'", "in 'b', 'ab', 'a', 'aba'"]      # lists of three and more items, later items overlapping: tried in list order


def small_programs(depth, rng, cap):
    """programs with up to `depth` constructors over a fixed atom set (exhaustive unless capped)"""
    level = list(ATOMS)
    allp = list(level)
    for _ in range(depth - 1):
        nxt = []
        for a in level:
            nxt += ["maybe (%s)" % a, "at least 0 (%s)" % a, "at least 1 (%s) fewest" % a, "between 1 and 2 (%s)" % a,
                    "(%s) = x x" % a, "{%s} = s s" % a]
            for b in ATOMS:
                nxt += ["(%s) (%s)" % (a, b), "(%s) or (%s)" % (a, b)]
        level = nxt
        allp += nxt
    if len(allp) > cap:
        allp = allp[:len(ATOMS)] + rng.sample(allp[len(ATOMS):], cap - len(ATOMS))
    return allp


def run(ctx):
    quick = ctx.quick()
    run_generated(ctx, 700 if quick else 12000, texts_per=6)
    texts = list(all_texts("ab\n", 3 if quick else 5))
    progs = small_programs(2 if quick else 3, ctx.rng, 250 if quick else 4000)
    extra = [{"src": "find all " + p, "texts": texts} for p in progs]
    # mandatory counts well above the small scope, with bodies that can match the empty string (the unrolled form accepts
    # empty iterations, a counted loop would not) and bodies that cannot
    long_texts = ["", "aaa", "aaaaaaaaaa", "x123; x;", "aab", "abababababab"]
    long2 = long_texts + ["a" * 41, "x" + "1" * 20 + ";", "a" * 16 + "b", "a" * 17 + "b", "x" + "a" * 21 + ";", "a" * 15 + "b" + "a" * 22 + "b"]
    for n in (8, 9, 10, 16, 17, 20):
        for body in (("(maybe 'a')", "'a'", "(at least 0 'a' fewest)", "(maybe digit)", "line start") if n <= 10 else ("'a'", "(maybe digit)")):
            extra.append({"src": "find all exactly %d %s" % (n, body), "texts": long_texts if n <= 10 else long2})
            extra.append({"src": "find all 'x' at least %d %s ';'" % (n, body), "texts": long_texts if n <= 10 else long2})
            extra.append({"src": "find all between %d and %d %s 'b'" % (n, n + 2, body), "texts": long_texts if n <= 10 else long2})
    # the scan between attempts: every start offset is tried, one byte after the other - also through CR LF pairs, tabs and runs of newlines
    # (line counting steps over them; the search must not)
    crlf_texts = ["a\r\nb", "\r\n", "\r\n\r\n", "a\r\n\r\nb", "\n\r\n", "\r\r\n", "ab\r\ncd\r\n", "\r", "a\rb", "\t\n\ta"]
    for p in ("'\n'", "any", "whitespace", "line start any", "line end", "not 'a'", "'\n' maybe 'b'", "in '\n', 'b'", "at least 1 whitespace", "line start", "'\r' or '\n'"):
        extra.append({"src": "find all " + p, "texts": crlf_texts})
    # caseless literals: only LETTERS have two cases - punctuation, digits, control bytes and the characters 0x20 away from them stand for themselves
    cl_texts = ["x{i} X[I] x[i}", "@ ` A a", "k\n k* K*", "a-b a\rb A-B", "1 ! 0 \x10", "_ \x7f ^ ~", "[ { \\ | ] }", "ab AB aB Ab a\x02"]
    for lit in ("x[i]", "@", "k*", "a-b", "1", "0", "_", "^", "[", "\\\\", "]", "ab", "a\"b", " "):
        extra.append({"src": "find all caseless '%s'" % lit, "texts": cl_texts})
        extra.append({"src": "find all (caseless '%s') or 'k'" % lit, "texts": cl_texts})
        extra.append({"src": "replace all caseless '%s' with '(' value ')'" % lit, "texts": cl_texts})
    # characters of several bytes: a literal is a byte string and `not in` / `not` consume ONE byte when no listed item starts here, whatever the items' sizes in characters
    for p in ("not in '%s'" % E2, "not in '%s', 'x'" % E3, "at least 1 (not in '\xc3\xbc', 'x') '!'", "not in '\\xe9'", "not '%s'" % E2, "at least 1 (not in '%s', '%s') fewest 'a'" % (E2, E4),
              "'%s' maybe 'a'" % E2, "in '%s', 'a'" % E2, "any", "any any", "between 1 and 2 '%s' 'a'" % E2, "at least 0 '%s' fewest 'a'" % E2, "(not in '%s') = x x" % E2, "not in '%sa', 'b'" % E2):
        extra.append({"src": "find all " + p, "texts": MB_TEXTS})
    # several stored patterns with DIFFERENT predicates asked about the same piece of text within one attempt (alternation, nesting, one after the other):
    # each verdict belongs to its own predicate and its own candidate
    preds = ["matchLength == 1", "matchLength == 2", "matchLength > 1", "match == 'a'", "match != 'ab'", "match < 'b'", "false", "true", "(match % 2) == 0", "(match % 3) == 0"]
    pbodies = ["at least 1 letter", "at least 1 digit", "at least 1 in 'a', 'b'", "any maybe any"]
    ptexts = [t for t in texts if len(t) <= 3] + ["4 9 8 12 7 10", "9y 6y 3x", "12 13 4 144", "ab a b aab", "a1 22 b 333",
                                                  # numerals a predicate computes with: leading zeros, signs, digits 8 and 9 (a decimal reading, whatever the spelling)
                                                  "010 20 7", "08 09 007 0100", "0x10 0b11 1_000", "00 0 012 018"]
    pairs = [(a, b) for a in preds for b in preds if a != b]
    if quick:
        pairs = ctx.rng.sample(pairs, 24)
    for a, b in pairs:
        body = ctx.rng.choice(pbodies) if quick else None
        for bd in ([body] if quick else pbodies):
            head = "set p to pattern %s begin return %s end\nset q to pattern %s begin return %s end\n" % (bd, a, bd, b)
            for form in ("find all (p or q)", "find all ((p 'x') or (q 'y'))", "find all (q or p) maybe p", "find all p q", "find all maybe p q"):
                extra.append({"src": head + form, "texts": ptexts})
            extra.append({"src": "set p to pattern %s begin return %s end\nset q to pattern p begin return %s end\nfind all q or p" % (bd, a, b), "texts": ptexts})
    cases, gres, dis, stats = run_generated(ctx, 0, extra=extra)
    ctx.coverage["rule"] = ("grammar-generated programs (all constructs of the core language) x 6 texts biased to near-matches, plus programs of up to "
                            "%d constructors over 12 atoms x all texts over {a,b,\\n} up to length %d; each run compared at three layers (bytecode, model VM on "
                            "the implementation's bytecode, end-to-end) and against the extracted specification; non-trivial = distinct (program,text) with at least one match"
                            % (2 if quick else 3, 3 if quick else 5))
    ctx.coverage["exhaustive_small_scope"] = not quick


def replay(ctx, obj):
    replay_core(ctx, obj)
