"""C18: the CLI delivers the library's results under every documented flag combination."""
import itertools, json, os, shutil, subprocess, tempfile
from props.core import *

ASSUMPTIONS = ["the built binary (go build of /repo/main.go) is run in scratch directories; exit status, stdout, stderr and the directory snapshot are observed",
               "expected matches come from the library through the harness (RunFiles in an identical scratch directory); file names are compared relative to the working directory",
               "-no-output suppresses the JSON files as well (main.go returns before writing them): treated as the documented meaning of 'do not output any results'"]

# contents, names and replacements carry the bytes an output path could mangle: % (printf verbs), quotes, backslashes, <>&
FILES = {"a.txt": "banana band 50%an% an\"q an\\y", "b.txt": "an apple\nand a nap %d an%s", "c.log": "bandana", "d%s 100%.txt": "an%v & <an>",
         # names in which the literal tail of *.txt starts to match early and has to be retried
         "x.t.txt": "an", "only..txt": "nan", "a.txt.txt": "anan",
         # ... and in which the literal piece after the star overlaps ITSELF (a false start inside the name: b-an-ana.txt against *ana.txt)
         "banana.txt": "an an", "ana.txt": "nan"}
PROGS = {"find": "find all 'an' maybe in '%', '\"', '\\\\', '>'", "replace": "replace all 'an' with '<%' value '%d>'", "delete": "replace all 'an' with ''", "failing": "find all (",
         # several commands over several files: the result list is ordered command by command, within a command file by file
         # exactly one match in all, and none at all (the counts a message is worded for)
         "single": "find top 1 'ban'", "singlerepl": "replace top 1 'ban' with 'BAN'", "zero": "find all 'qqq'",
         "several": "find all 'ban' find all ('an' = w) maybe 'd' replace all 'nd' with 'ND' find all at least 1 (('a' or 'n') = c) named cs"}
FILESETS = {"one": "a.txt", "several": "*.txt", "glob": "*", "none": "*.nothing", "overlap": "*ana.txt"}


def selected(fileset):
    pat = FILESETS[fileset]
    import fnmatch
    return sorted(f for f in FILES if fnmatch.fnmatchcase(f, pat))


def canon_cli(doc, cwd):
    out = []
    for m in doc:
        fn = m["filename"]
        fn = os.path.relpath(fn, cwd) if os.path.isabs(fn) else fn
        out.append((os.path.normpath(fn), m["matchNumber"], m["offset"]["start"], m["offset"]["end"], m["line"]["start"], m["line"]["end"],
                    m["column"]["start"], m["column"]["end"], m["value"], m.get("replacement"), json.dumps(m["variables"], sort_keys=True)))
    return out


def canon_lib(matches_sx, filenames):
    out = []
    def val(v):
        if isinstance(v, str):
            return bytes.fromhex(v[1:]).decode("latin-1")
        return {bytes.fromhex(k[1:]).decode("latin-1"): val(x) for k, x in v}
    for m, fn in zip(parse_matches(matches_sx), filenames):
        out.append((os.path.normpath(fn), int(m[1]), int(m[2]), int(m[3]), int(m[4]), int(m[5]), int(m[6]), int(m[7]),
                    bytes.fromhex(m[8][1:]).decode("latin-1"), None if m[9] == "none" else bytes.fromhex(m[9][1:]).decode("latin-1"),
                    json.dumps(val(m[10]), sort_keys=True)))
    return out


def snapshot(d):
    out = {}
    for root, _, fs in os.walk(d):
        for f in fs:
            p = os.path.join(root, f)
            out[os.path.relpath(p, d)] = open(p, "rb").read()
    return out


def one_json_document(text):
    try:
        return json.loads(text), None
    except Exception as e:
        return None, str(e)


def run(ctx):
    quick = ctx.quick()
    rng = ctx.rng
    cli = vh.build_cli()
    combos = list(itertools.product([True, False], [True, False], [True, False], [True, False], [True, False], [True, False], [True, False],
                                    ["unset", "NEW", "NOTHING", "OVERWRITE", "bogus"], [True, False], list(PROGS), list(FILESETS)))
    if quick:
        def valid(c):
            com, src, files, js, fjs, jf, fjf, mode, noout, prog, fileset = c
            return files and (com != src) and not (js and fjs) and mode != "bogus" and prog != "failing" and fileset != "none"
        good = [c for c in combos if valid(c)]
        bad = [c for c in combos if not valid(c)]
        # every single reason of invalidity against every program kind and file set, with the other flags at their plainest (corners of the cross product)
        def plain(c):
            com, src, files, js, fjs, jf, fjf, mode, noout, prog, fileset = c
            return not jf and not fjf and not noout and not fjs
        corners = [c for c in bad if plain(c) and ((c[7] == "bogus" and c[0] and not c[1] and c[2]) or (c[7] == "unset" and c[9] == "failing" and c[0] and not c[1] and c[2])
                                                   or (c[7] == "unset" and not c[2] and c[0] and not c[1]) or (c[7] == "unset" and c[0] and c[1] and c[2]) or (c[7] == "unset" and not c[0] and not c[1] and c[2]))]
        # the multi-command program over several files in every mode, on standard output and into both files (the order of the result list is part of the result)
        fixed = [(True, False, True, js, False, jf, jf, mode, False, "several", fs) for mode in ("unset", "NEW", "NOTHING", "OVERWRITE") for fs in ("several", "glob", "overlap")
                 for js, jf in ((True, False), (False, True))]
        fixed += [(True, False, True, js, fjs, False, False, mode, False, prog, "one") for prog in ("single", "singlerepl", "zero") for mode in ("unset", "NOTHING")
                  for js, fjs in ((True, False), (False, True), (False, False))]
        combos = rng.sample(good, 150) + fixed + corners + rng.sample(bad, 110)
    # decisions of the proved model
    def b(x):
        return "t" if x else "f"
    mlines = []
    for i, (com, src, files, js, fjs, jf, fjf, mode, noout, prog, fileset) in enumerate(combos):
        mlines.append("(c%d cli %s %s %s %s %s %s %s %s %s)" % (i, b(com), b(src), b(files), b(js), b(fjs), b(jf), b(fjf), mode, b(noout)))
    mres = model.run_model(mlines, shards=4)
    # library results per (prog, fileset, mode)
    libkeys = sorted({(prog, fileset, mode) for (_, _, _, _, _, _, _, mode, _, prog, fileset) in combos if prog != "failing" and mode != "bogus"})
    lcases = [{"op": "files", "src_hex": vh.hexs(PROGS[p]), "files": [[f, vh.hexs(c)] for f, c in FILES.items()], "search": selected(fs),
               "mode": "NEW" if m == "unset" else m} for (p, fs, m) in libkeys]
    lres = dict(zip(libkeys, vh.run_cases(lcases, shards=8)))
    base = os.path.join(vh.scratch(), "cli")
    os.makedirs(base, exist_ok=True)

    def run_one(i):
        com, src, files, js, fjs, jf, fjf, mode, noout, prog, fileset = combos[i]
        d = tempfile.mkdtemp(prefix="c", dir=base)
        for f, c in FILES.items():
            open(os.path.join(d, f), "w").write(c)
        outside = tempfile.mkdtemp(prefix="o", dir=base)      # JSON files and the -src file live outside the searched directory
        argv = [cli]
        if com:
            argv += ["-com", PROGS[prog]]
        if src:
            sp = os.path.join(outside, "prog.vore")
            open(sp, "w").write(PROGS[prog])
            argv += ["-src", sp]
        if files:
            argv += ["-files", FILESETS[fileset]]
        if js:
            argv.append("-json")
        if fjs:
            argv.append("-formatted-json")
        if jf:
            argv += ["-json-file", os.path.join(outside, "out.json")]
        if fjf:
            argv += ["-formatted-json-file", os.path.join(outside, "fout.json")]
        if mode != "unset":
            argv += ["-replace-mode", mode]
        if noout:
            argv.append("-no-output")
        # every other run finds the named JSON files already there, longer than anything the run will write (a second run into the same files)
        stale = {}
        if i % 2 == 1:
            for fn in ("out.json", "fout.json"):
                stale[fn] = ('[{"stale": "' + "Z" * 60000 + '"}]\n').encode()
                open(os.path.join(outside, fn), "wb").write(stale[fn])
        before = snapshot(d)
        try:
            p = subprocess.run(argv, cwd=d, capture_output=True, timeout=30)
            rc, so, se = p.returncode, p.stdout.decode("latin-1"), p.stderr.decode("latin-1")
        except subprocess.TimeoutExpired:
            rc, so, se = -9, "", "timeout"
        after = snapshot(d)
        outs = snapshot(outside)
        shutil.rmtree(d, ignore_errors=True)
        shutil.rmtree(outside, ignore_errors=True)
        for fn, c in stale.items():
            if outs.get(fn) == c:
                del outs[fn]          # untouched: as if it had not been there
        return (argv[1:], rc, so, se, before, after, outs, d)

    from concurrent.futures import ThreadPoolExecutor
    with ThreadPoolExecutor(12) as ex:
        results = list(ex.map(run_one, range(len(combos))))
    ev = 0
    nt = 0
    for i, (combo, (argv, rc, so, se, before, after, outs, cwd)) in enumerate(zip(combos, results)):
        com, src, files, js, fjs, jf, fjf, mode, noout, prog, fileset = combo
        ev += 1
        dec = mres.get("c%d" % i, "")
        rep = {"argv": argv, "exit": rc, "stdout": so[:600], "stderr": se[:300]}
        if dec.startswith("(reject") or prog == "failing":
            if rc == 0:
                ctx.violation("an invalid invocation / a program that does not compile exits 0", rep)
            elif not (so.strip() or se.strip()):
                ctx.violation("an invalid invocation exits non-zero without any message", rep)
            elif after != before or any(k in outs for k in ("out.json", "fout.json")):
                ctx.violation("an invalid invocation modified or created a file", dict(rep, changed=sorted(set(after) ^ set(before))))
            continue
        plan = model.parse_sexp(dec)
        pmode, pstdout, pjf, pfjf = plan[1], plan[2], plan[3] == "t", plan[4] == "t"
        if rc != 0:
            ctx.violation("a documented invocation exits non-zero", rep)
            continue
        if not selected(fileset):
            if after != before:
                ctx.violation("no file selected, yet the directory changed", rep)
            continue
        lib = lres.get((prog, fileset, mode))
        if not lib or "matches" not in lib:
            continue
        want = canon_lib(lib["matches"], lib["filenames"])
        wsnap = {k: bytes.fromhex(v) for k, v in lib["snapshot"].items()}
        if after != wsnap:
            diff = sorted(k for k in set(after) | set(wsnap) if after.get(k) != wsnap.get(k))
            ctx.violation("files after the CLI run differ from what the library does in mode %s (default NEW): %s" % (pmode, diff), rep)
            continue
        if want:
            nt += 1
            if pstdout in ("json", "fjson"):
                doc, err = one_json_document(so)
                if doc is None:
                    ctx.violation("standard output under %s is not exactly one JSON document (%s)" % ("-json" if pstdout == "json" else "-formatted-json", err), rep)
                    continue
                if canon_cli(doc, cwd) != want:
                    ctx.violation("the JSON document on standard output differs from the library's result", dict(rep, expected=want[:3]))
                    continue
            for name, flag in (("out.json", pjf), ("fout.json", pfjf)):
                if flag:
                    if name not in outs:
                        ctx.violation("the named JSON file was not written", dict(rep, file=name))
                        continue
                    doc, err = one_json_document(outs[name].decode("latin-1"))
                    if doc is None or canon_cli(doc, cwd) != want:
                        ctx.violation("the named JSON file does not hold one JSON document equal to the library's result", dict(rep, file=name, error=err))
                elif name in outs:
                    ctx.violation("a JSON file was written although output was suppressed or the flag not given", dict(rep, file=name))
            if pstdout == "none" and so.strip():
                ctx.violation("-no-output still prints", rep)
    ctx.coverage["evaluations"] = ev
    ctx.coverage["distinct_nontrivial"] = nt
    ctx.coverage["exhaustive"] = not quick
    ctx.coverage["rule"] = ("cross product of -com/-src x -files x -json x -formatted-json x -json-file x -formatted-json-file x mode {unset,NEW,NOTHING,OVERWRITE,bogus} x -no-output "
                            "x {find, replace, failing program} x {one file, several, glob, none matching} on the built binary (complete in the thorough tier, sampled in the quick tier); "
                            "decision compared with the proved decision function, results with the library; non-trivial = accepted runs with at least one match")
    ctx.sample({"argv": results[0][0], "exit": results[0][1]})


def replay(ctx, obj):
    print(obj)
