"""C08: Compile is total - any source text yields a program or an error value."""
from props.core import *
import os
import front

ASSUMPTIONS = ["the model reads runes (what bufio.ReadRune delivers); sources that are not valid UTF-8, that have non-ASCII runes outside strings/comments/regex bodies, or that contain numbers of "
               "more than 6 digits are run on the implementation only (no panic, no hang, program xor error) and not compared with the model",
               "'bounded time and memory' is observed as: the harness watchdog (10 s, 2 GB) never fires; the model's bound is the linear fuel of the theorem",
               "known finding K25: loop counts are unrolled by the generator, so compile time and memory grow with the product of nested minimum counts; one representative is probed under the watchdog"]

K25_SOURCE = "find all exactly 99999999 'a'"


def probe_k25(ctx):
    k = [x for x in ctx.known if x.get("id") == "K25"]
    r = vh.run_cases([{"op": "e2e", "src_hex": vh.hexs(K25_SOURCE)}], timeout_ms=8000, maxmem=1024)[0]
    failing = bool(r.get("hang") or r.get("oom") or "panic" in r)
    if failing:
        if k:
            ctx.known_finding(k[0]["text"])
        else:
            ctx.violation("Compile does not return within the time/memory limit", {"source": K25_SOURCE, "outcome": {kk: v for kk, v in r.items() if kk != "stack"}})
    return failing


def run(ctx):
    quick = ctx.quick()
    rng = ctx.rng
    srcs, labs = [], []

    def add(s, lab):
        srcs.append(s)
        labs.append(lab)

    corp = front.corpus()
    gen = front.generated_programs(rng, 60 if quick else 400)
    for s, _ in corp:
        add(s, "corpus")
    for s in gen:
        add(s, "generated")
    base = [s for s, _ in corp] + gen
    pick = rng.sample(base, 25) if quick else base
    for s in pick:
        for kind, m in front.mutations(rng, s, limit=40 if quick else None):
            add(m, kind)
    for _ in range(500 if quick else 8000):
        add(front.token_soup(rng), "token soup")
    for _ in range(400 if quick else 8000):
        add(front.random_bytes(rng), "random bytes")
    for _ in range(500 if quick else 8000):
        body = front.random_regex(rng, hostile=rng.random() < 0.6)
        add(rng.choice(["find all @/%s/", "find all @/%s/ 'x'", "replace all @/%s/ with 'y'", "find all @/%s"]) % body, "regex literal")
    # the inputs the property text names
    for s in ["find all @/abc", "find all 'a' --", "set f to transform return end", "find all @/(/", "find all @/[/", "find all @/a{/", "find all @/a{1,/", "find all @/\\/",
              "find all @/(?/", "find all @/(?</", "find all @/\\k</", "find all (", "find all {", "find all 'a' =", "find all in", "find all not", "find all between 1 and",
              "set", "set x", "set x to", "set x to matches", "set x to pattern", "set x to transform", "set x to transform begin", "replace all 'a' with", "find", "find skip", "find skip 1 take",
              "", " ", "--", "--(", "'", "\"", "@", "@/", "\x00", "find all 'a'\x00 garbage", "find all \"\\", "find all '\\x", "find all '\\x4",
              # numbers that do not fit an int, in every place a number is read
              "find skip 99999999999999999999 'a'", "find take 99999999999999999999 'a'", "find top 99999999999999999999 'a'", "find last 99999999999999999999 'a'",
              "find skip 1 take 99999999999999999999 'a'", "find all at least 99999999999999999999 'a'", "find all at most 99999999999999999999 'a'",
              "find all between 99999999999999999999 and 3 'a'", "find all between 1 and 99999999999999999999 'a'", "find all exactly 99999999999999999999 'a'",
              "find all at least 9223372036854775807 'a' named x", "find all exactly 9223372036854775807 'a' named x", "find all between 9223372036854775806 and 9223372036854775807 'a' named x",
              "find all at least 17592186044414 'a' named x", "replace all at least 9223372036854775805 'a' named x with 'b'", "set p to pattern at least 9223372036854775807 'a' named x\nfind all p",
              "find all @/a{99999999999999999999}/", "find all @/a{1,99999999999999999999}/", "find skip 1 take", "find skip 1 take x 'a'",
              # names and classes cut short or followed by the wrong word
              "find all exactly x 'a'", "find all exactly 2 'a' named", "find all exactly 2 'a' named 3", "find all at least 1 'a' named", "find all at least 1 'a' named 3", "find all exactly 2 'a' named n",
              "find all line", "find all line x", "find all word", "find all word x", "find all file", "find all file x", "find all whole", "find all whole x", "find all not", "find all not x y",
              "find all in caseless 'a', 'b'", "find all caseless", "find all caseless x", "find all = x", "find all 'a' = 3", "set x to matches", "set x to matches x", "set x to matches find all 'a'",
              "set x to matches set y to pattern 'a'", "set f to transform return (1 end", "set f to transform return (1 + 2 end find all 'a'",
              # regex escapes and group openers of every kind
              "find all @/\\w\\W\\b\\B/", "find all @/\\k/", "find all @/\\kx/", "find all @/\\k<x/", "find all @/(?=a)/", "find all @/(?!a)/", "find all @/(?<=a)/", "find all @/(?<!a)/", "find all @/(?<n/",
              "find all @/(?:a/", "find all @/a{3/", "find all @/a{3,/", "find all @/a{3,4/", "find all @/a{3,4x/", "find all @/a{x}/", "find all @/[a-/", "find all @/[a/", "find all @/[\\/", "find all @/\\/"]:
        add(s, "named in the property")
    # definitions that generate nothing, referenced later (once, twice, from another definition, in find and replace)
    for empty in ("", "()", "@//", "exactly 0 'a'", "begin return true end", "(())", "maybe ()"):
        for use in ("find all e", "find all 'a' e", "find all e e", "replace all e with 'x'", "find all maybe e 'a'", "set b to pattern e\nfind all b", "set b to pattern e 'a' e\nfind all b e"):
            add("set e to pattern %s\n%s" % (empty, use), "empty definition referenced")
    # very short sources, byte by byte: every single byte, every pair of the bytes that begin or continue a multi-byte character, a byte-order mark
    # in front of a program and every prefix of that (sources also go through CompileFile, which reads them from disk)
    for b in range(256):
        add(chr(b), "one byte")
    lead = [0x00, 0x0a, 0x20, 0x27, 0x2d, 0x40, 0x7f, 0x80, 0xbb, 0xbf, 0xc0, 0xc3, 0xe2, 0xef, 0xf0, 0xf4, 0xfe, 0xff]
    for a in lead:
        for b in lead:
            add(chr(a) + chr(b), "two bytes")
    bom = "\xef\xbb\xbffind all 'a'"
    for k in range(len(bom) + 1):
        add(bom[:k], "byte-order mark prefix")
    add("\xff\xfef\x00i\x00n\x00d\x00", "byte-order mark prefix")
    # every BYTE prefix (not only token prefixes) of sources that use every multi-character construct of the lexer: block and line comments, both quote styles with
    # escapes, regex literals, two-character operators; each prefix also followed by a NUL (which ends the source)
    for full in ("find all 'a' --( note )-- 'b\\x41\\'' -- line\n@/x(y)\\/[a-z]/ \"s\\\"t\" = v1",
                 "--( header )--\nset f to transform if 1 <= 2 then return match >= 'a' end return 1 != 2 end\nreplace all 'a' with f",
                 "find all @/a{2,3}(?<n>b)\\k<n>/ --(c)-- in 'a' to 'z', digit"):
        for k in range(len(full) + 1):
            add(full[:k], "byte prefix")
            add(full[:k] + "\x00 tail", "byte prefix")
    # process expressions cut short by a statement keyword: the expression parser runs on a token slice that ends where the statement ends
    # (no EOF token behind it), so every look-ahead must stop there
    etoks = ["-", "+", "*", "/", "%", "==", "!=", "<", ">", "<=", ">=", "and", "or", "not", "head", "tail", "(", ")", "1", "x", "'s'", "true", "match"]
    stops = ["end", "then", "set", "if", "else", "debug", "return", "loop", "break", "continue"]
    frames = ["set f to transform return %s %s end find all 'a'", "set f to transform if %s %s return 'a' end end find all 'a'", "set p to pattern 'a' begin return %s %s end find all p",
              "set f to transform set v to %s %s return v end find all 'a'", "set f to transform debug %s %s return 'a' end find all 'a'", "set f to transform loop if %s %s break end end find all 'a'"]
    frag = [[a] for a in etoks] + [[a, b] for a in etoks for b in etoks]
    if quick:
        frag = [[a] for a in etoks] + [[a, b] for a in etoks for b in ("-", "not", "(", "1", "==")] + [[b, a] for a in etoks for b in ("1", "x", "(")] + rng.sample(frag, 60)
    for fr in frag:
        st = rng.choice(stops)
        fm = rng.choice(frames)
        add(fm % (" ".join(fr), st if st != "end" else ""), "expression fragment")
        if fr[-1] == "-" or len(fr) == 1:
            for st2 in stops:
                add(frames[0] % (" ".join(fr), st2 if st2 != "end" else ""), "expression fragment")
    # long sources: whatever bookkeeping the lexer keeps per rune must not care where a token boundary falls (4096-byte buffers, position history, ...)
    pads = list(range(4070, 4110)) + [8170 + k for k in range(0, 40, 3)] if quick else list(range(3990, 4210)) + list(range(8100, 8300)) + list(range(12200, 12400))
    for pad in pads:
        add("find all" + " " * pad + "'a'", "long source")
        add("find all 'a'" + "\n" * pad + "bogus", "long source")
        add("find all 'a' -- " + "c" * pad + "\nfind all 'b'", "long source")
        add("find all exactly " + "0" * pad + "2 'a'", "long source")
        add("find all 'a'" + " " * pad, "long source")
    body = " ".join("find all at least %d 'x%d' = v%d" % (i % 7, i, i) for i in range(300))
    for lead in range(0, 41 if quick else 200, 1 if quick else 1):
        add(" " * lead + body, "long source")
    # deep nesting: the parser recursion is bounded by the token count
    for n in (50, 400) if quick else (50, 400, 3000):
        add("find all " + "(" * n + "'a'" + ")" * n, "deep nesting")
        add("find all " + "maybe " * n + "'a'", "deep nesting")
        add("set f to transform return " + "(" * n + "1" + ")" * n + " end find all 'a'", "deep nesting")
        add("set f to transform return " + "not " * n + "true end find all 'a'", "deep nesting")
        add("find all @/" + "(" * n + "a" + ")" * n + "/", "deep nesting")
        m = min(n, 60)
        add("find all " + "(" * m + "'a'" + " or 'b')" * m, "deep nesting with alternation")          # ((('a' or 'b') or 'b') ...
        add("find all " + "('a' or " * m + "'b'" + ")" * m, "deep nesting with alternation")
        add("find all " + "(" * m + "'a'" + " = x%d)" * 1 % 0 + ")" * (m - 1), "deep nesting with alternation")
        add("find all @/" + "(" * m + "a" + "|b)" * m + "/", "deep nesting with alternation")
        add("find all @/" + "(?:" * m + "a" + ")*" * m + "/", "deep nesting with alternation")
        add("set f to transform return " + "(" * m + "1" + " + 2)" * m + " end find all 'a'", "deep nesting with alternation")
        add("set f to transform " + "if true then " * m + "return 'a' " + "end " * m + "end find all 'a'", "deep nesting with alternation")
        add("find all " + "{" * 20 + "'a'" + "".join("} = s%d " % i for i in range(20)), "deep nesting with alternation")
    stats = {}
    outs = []
    B = 4000
    for i in range(0, len(srcs), B):
        outs += front.compare_front(ctx, srcs[i:i + B], labs[i:i + B], stats=stats)
    # error values must be printable; a result is a program xor an error
    for s, d in zip(srcs, outs):
        r = d["raw"]
        if r.get("both") or r.get("neither"):
            ctx.violation("Compile returned %s" % ("both a program and an error" if r.get("both") else "neither a program nor an error"), {"source": s})
        if "err" in r and not str(r["err"]).strip():
            ctx.violation("the error value has an empty message", {"source": s})
    k25 = probe_k25(ctx)
    if not quick:
        # cross-check of the extraction: results of the extracted model re-checked inside Coq
        import subprocess
        px = subprocess.run(["python3", os.path.join(os.path.dirname(os.path.dirname(os.path.abspath(__file__))), "xcheck.py"), "90"], capture_output=True, text=True)
        ctx.coverage["extraction_crosscheck"] = (px.stdout.strip().split("\n") or ["?"])[0]
        if px.returncode != 0:
            ctx.corr_break("EXTRACTION", {"output": (px.stdout + px.stderr)[-1200:]})
    ctx.coverage["evaluations"] = len(srcs)
    ctx.coverage["distinct_nontrivial"] = len({s for s, d in zip(srcs, outs) if d["go"][0] in ("lexerr", "parseerr") or d["raw"].get("errclass") == "gen"})
    ctx.coverage["outcomes"] = stats
    ctx.coverage["compared_with_model"] = sum(1 for d in outs if d["in_scope"])
    ctx.coverage["input_kinds"] = {l: labs.count(l) for l in sorted(set(labs))}
    ctx.coverage["k25_reproduces"] = k25
    ctx.coverage["rule"] = ("valid programs (repository tests + docs corpus, generated) x {every prefix, one-token deletion/duplication/swap}, token soups, random bytes incl. NUL and invalid UTF-8, "
                            "regex literals with arbitrary bodies, process expressions cut short by every statement keyword, nesting depth up to 3000: Compile must return a program xor a printable error without panic/hang/2GB; token stream and syntax tree "
                            "(or error class) compared with the model on every in-scope source; non-trivial = distinct rejected sources")
    ctx.sample({"source": srcs[0][:80], "kind": labs[0]})
    ctx.sample({"source": srcs[-1][:80], "kind": labs[-1]})


def replay(ctx, obj):
    if "source" in obj:
        outs = front.compare_front(ctx, [obj["source"]], ["replay"])
        print(outs[0]["go"], outs[0].get("model"))
    else:
        print(obj)
