"""C11: process expressions evaluate as the documented operator table says."""
import itertools
from props.core import *

ASSUMPTIONS = ["expected values come from a Python transcription of the documented table (docs/language/LanguageDetails.md), independent of the Coq spec and of the model",
               "negative and minimal integers are written as (0 - n) expressions, since the language has no negative literals",
               "division / modulo by a right operand that coerces to 0 is the known finding K23 and is skipped here"]

OPS = {"and": 1, "or": 1, "==": 3, "!=": 3, "<": 5, ">": 5, "<=": 5, ">=": 5, "+": 7, "-": 7, "*": 9, "/": 9, "%": 9}
OPNAME = {"and": "AND", "or": "OR", "==": "DEQUAL", "!=": "NEQUAL", "<": "LESS", ">": "GREATER", "<=": "LESSEQ", ">=": "GREATEREQ",
          "+": "PLUS", "-": "MINUS", "*": "MULT", "/": "DIV", "%": "MOD"}
M63 = 1 << 63


def wrap(z):
    return (z + M63) % (1 << 64) - M63


def to_s(v):
    k, x = v
    return x if k == "s" else (str(x).encode() if k == "n" else (b"true" if x else b"false"))


def to_n(v):
    k, x = v
    if k == "n":
        return x
    if k == "b":
        return 1 if x else 0
    try:
        t = x.decode("latin-1")
        body = t[1:] if t[:1] in "+-" else t
        if not body or not all(c in "0123456789" for c in body):
            return 0
        z = int(t)
        return z if -M63 <= z < M63 else 0
    except Exception:
        return 0


def to_b(v):
    k, x = v
    return len(x) != 0 if k == "s" else (x != 0 if k == "n" else x)


def tdiv(a, b):
    q = abs(a) // abs(b)
    return q if (a < 0) == (b < 0) else -q


def doc_table(op, l, r):
    """None = not in the table; 'div0' = division by zero"""
    lk, rk = l[0], r[0]
    cmpops = {"==": lambda a, b: a == b, "!=": lambda a, b: a != b, "<": lambda a, b: a < b, ">": lambda a, b: a > b,
              "<=": lambda a, b: a <= b, ">=": lambda a, b: a >= b}
    def arith(a, b):
        if op == "+": return ("n", wrap(a + b))
        if op == "-": return ("n", wrap(a - b))
        if op == "*": return ("n", wrap(a * b))
        if b == 0: return "div0"
        if op == "/": return ("n", wrap(tdiv(a, b)))
        return ("n", a - b * tdiv(a, b))
    if lk == "s":
        if op == "+": return ("s", to_s(l) + to_s(r))
        if op in cmpops: return ("b", cmpops[op](to_s(l), to_s(r)))
        if op in "-*/%" and rk == "n": return arith(to_n(l), to_n(r))
        return None
    if lk == "b":
        if op == "and": return ("b", to_b(l) and to_b(r))
        if op == "or": return ("b", to_b(l) or to_b(r))
        if op in cmpops: return ("b", cmpops[op](int(to_b(l)), int(to_b(r))))
        return None
    if op in cmpops: return ("b", cmpops[op](to_n(l), to_n(r)))
    if op in "+-*/%": return arith(to_n(l), to_n(r))
    return None


def lit(v):
    k, x = v
    if k == "s":
        return genprog.q(x.decode("latin-1"))
    if k == "b":
        return "true" if x else "false"
    if x >= 0:
        return str(x)
    if x == -M63:
        return "(0 - 9223372036854775807 - 1)"
    return "(0 - %d)" % (-x)


STRS = [b"", b"0", b"7", b"-3", b"+4", b"x", b"07", b"010", b"08", b"0x10", b"0b11", b"0o17", b"1_000", b"1e3", b" 5", b"5 ", b"--1", b"+-2", b"-", b"+",
        b"9223372036854775807", b"9223372036854775808", b"-9223372036854775808", b"-9223372036854775809", b"ab", b"true", b"1.5"]
NUMS = [0, 1, -1, 2, 7, -3, M63 - 1, -M63]
BOOLS = [True, False]
VALUES = [("s", s) for s in STRS] + [("n", n) for n in NUMS] + [("b", b) for b in BOOLS]


def render(t, full):
    if t[0] == "leaf":
        return t[1]
    if t[0] == "un":
        inner = render(t[2], full)
        if full or t[2][0] == "bin":
            inner = "(" + inner + ")"
        return "%s %s" % (t[1], inner)
    _, op, l, r = t
    L = OPS[op]
    ls, rs = render(l, full), render(r, full)
    if full or (l[0] == "bin" and OPS[l[1]] < L):
        ls = "(" + ls + ")"
    if full or (r[0] == "bin" and OPS[r[1]] <= L):
        rs = "(" + rs + ")"
    return "%s %s %s" % (ls, op, rs)


def tree_sexp(t):
    if t[0] == "leaf":
        x = t[1]
        if x in ("true", "false"):
            return "(pbool %s)" % ("t" if x == "true" else "f")
        if x[0] == "'":
            return "(pstr h%s)" % x[1:-1].encode().hex()
        if x.isdigit():
            return "(pnum %s)" % x
        return "(pvar h%s)" % x.encode().hex()
    if t[0] == "un":
        return "(un %s %s)" % (t[1].upper(), tree_sexp(t[2]))
    return "(bin %s %s %s)" % (OPNAME[t[1]], tree_sexp(t[2]), tree_sexp(t[3]))


def gen_tree(rng, d):
    if d == 0 or rng.random() < 0.25:
        return ("leaf", rng.choice(["1", "2", "x", "match", "'a'", "true", "7", "y"]))
    if rng.random() < 0.15:
        return ("un", rng.choice(["not", "head", "tail"]), gen_tree(rng, d - 1))
    return ("bin", rng.choice(list(OPS)), gen_tree(rng, d - 1), gen_tree(rng, d - 1))


def run(ctx):
    quick = ctx.quick()
    rng = ctx.rng
    cases, meta = [], []
    combos = [(op, l, r) for op in OPS for l in VALUES for r in VALUES]
    if quick:
        # all operators x all values against a few partners, then a sample of the rest
        partners = [("s", b"010"), ("n", 3), ("b", True), ("s", b""), ("n", 0)]
        base = [(op, l, r) for op in OPS for l in VALUES for r in partners] + [(op, l, r) for op in OPS for l in partners for r in VALUES]
        combos = base + rng.sample(combos, 800)
    for op, l, r in combos:
        exp = doc_table(op, l, r)
        if exp is None or exp == "div0":
            continue
        e = "%s %s %s" % (lit(l), op, lit(r))
        if exp[0] == "b":
            src = "set f to transform if %s then return 'T' end return 'F' end\nreplace all 'a' with f" % e
            want = b"T" if exp[1] else b"F"
            src2 = "set p to pattern 'a' begin return %s end\nfind all p" % e
            cases.append({"src": src2, "texts": ["a"]})
            meta.append(("pred", e, exp[1]))
            # the result IS a boolean: consumed as a string and as a number it must be true/false and 1/0, whatever the operands were
            cases.append({"src": "set f to transform return '' + (%s) end\nreplace all 'a' with f" % e, "texts": ["a"]})
            meta.append(("val", "'' + (%s)" % e, b"true" if exp[1] else b"false"))
            if op in ("and", "or") or rng.random() < 0.2:
                cases.append({"src": "set f to transform return 0 + (%s) end\nreplace all 'a' with f" % e, "texts": ["a"]})
                meta.append(("val", "0 + (%s)" % e, b"1" if exp[1] else b"0"))
                cases.append({"src": "set f to transform if (%s) == true then return 'T' end return 'F' end\nreplace all 'a' with f" % e, "texts": ["a"]})
                meta.append(("val", "(%s) == true" % e, b"T" if exp[1] else b"F"))
        else:
            src = "set f to transform return %s end\nreplace all 'a' with f" % e
            want = to_s(exp)
        cases.append({"src": src, "texts": ["a"]})
        meta.append(("val", e, want))
    # unary operators
    for v in VALUES:
        if v[0] == "s":
            s = v[1]
            for uop, want in (("head", s[:1]), ("tail", s[1:])):
                cases.append({"src": "set f to transform return %s %s end\nreplace all 'a' with f" % (uop, lit(v)), "texts": ["a"]})
                meta.append(("val", "%s %s" % (uop, lit(v)), want))
        if v[0] == "b":
            cases.append({"src": "set f to transform if not %s then return 'T' end return 'F' end\nreplace all 'a' with f" % lit(v), "texts": ["a"]})
            meta.append(("val", "not " + lit(v), b"F" if v[1] else b"T"))
    # head / tail split off the first BYTE, also when the string starts with a character of several bytes (written raw in the source, or read from the text)
    for u8 in ["é".encode(), "éa".encode(), "aé".encode(), "€x".encode(), "😀".encode(), "ñandú".encode()]:
        raw = u8.decode("latin-1")
        for uop, want in (("head", u8[:1]), ("tail", u8[1:])):
            cases.append({"src": "set f to transform return %s '%s' end\nreplace all 'a' with f" % (uop, raw), "texts": ["a"]})
            meta.append(("val", "%s of the literal %r" % (uop, u8), want))
            cases.append({"src": "set f to transform return %s match end\nreplace all at least 1 any with f" % uop, "texts": [raw]})
            meta.append(("val", "%s match on %r" % (uop, u8), want))
        cases.append({"src": "set f to transform set n to 0 set t to match loop if t == '' then break end set t to tail t set n to n + 1 end return n end\nreplace all at least 1 any with f", "texts": [raw]})
        meta.append(("val", "byte count by repeated tail on %r" % u8, str(len(u8)).encode()))
    # coercion of the match text (run-time strings): match is the text
    for t in ["7", "-3", "+4", "x", "07", "", "9223372036854775808", "12"]:
        if t == "":
            continue
        cases.append({"src": "set f to transform return match - 1 end\nreplace all at least 1 any with f", "texts": [t]})
        meta.append(("val", "match - 1 on %r" % t, str(wrap(to_n(("s", t.encode())) - 1)).encode()))
    gres, dis, stats = corr_core.run_core(cases, shards=12, spec=False)
    report_core_disagreements(ctx, cases, dis, in_scope=in_scope_core, known=known_core)
    ev = 0
    nt = set()
    for c, g, (kind, e, want) in zip(cases, gres, meta):
        if "matches_list" not in g:
            if "err" in g:
                ctx.violation("an operator/type combination of the documented table is rejected", {"source": c["src"], "error": g["err"]})
            continue
        ms = parse_matches(g["matches_list"][0])
        ev += 1
        if kind == "pred":
            got = len(ms) == 1
            if got != want:
                ctx.violation("a predicate returning %s %s the match" % (e, "rejects" if want else "accepts"), {"source": c["src"], "text": c["texts"][0]})
        else:
            got = None if not ms or ms[0][9] == "none" else bytes.fromhex(ms[0][9][1:])
            if got != want:
                ctx.violation("expression %s evaluates to %r, the documented table gives %r" % (e, got, want),
                              {"source": c["src"], "text": c["texts"][0], "matches": g["matches_list"][0]})
        nt.add(e)
    # precedence and associativity: minimal and full parenthesisation parse to the same tree
    trees = [gen_tree(rng, rng.choice([2, 3, 3, 4])) for _ in range(400 if quick else 60000)]
    pc, pm = [], []
    for t in trees:
        for full in (False, True):
            pc.append({"op": "e2e", "src_hex": vh.hexs("set f to transform return %s end" % render(t, full))})
            pm.append((t, full))
    pres = vh.run_cases(pc, shards=8)
    for (t, full), c, r in zip(pm, pc, pres):
        src = bytes.fromhex(c["src_hex"]).decode()
        if "ast" not in r:
            ctx.violation("a well-formed expression is not parsed", {"source": src, "result": {k: r[k] for k in r if k in ("err", "panic")}})
            continue
        ev += 1
        want = "((set h66 (transform ((pret %s)))))" % tree_sexp(t)
        if r["ast"] != want:
            ctx.violation("precedence/associativity: the expression does not parse to the tree its (%s) parenthesisation denotes" % ("full" if full else "minimal"),
                          {"source": src, "parsed": r["ast"], "expected": want})
    ctx.coverage["evaluations"] = ev
    ctx.coverage["distinct_nontrivial"] = len(nt)
    ctx.coverage["agreement"] = stats
    ctx.coverage["exhaustive"] = not quick
    ctx.coverage["rule"] = ("all operators x operand values of the three types over boundary values (0, 1, negatives, int64 min/max, '', numeric and non-numeric strings, out-of-range numerals) "
                            "through a transform and through a predicate; unary operators; run-time strings; expression trees to depth 4 rendered with minimal and with full parentheses "
                            "must parse to the same tree; non-trivial = distinct expressions evaluated")
    ctx.sample({"source": cases[0]["src"]})


def replay(ctx, obj):
    replay_core(ctx, obj)
