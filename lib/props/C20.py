"""C20: a -files pattern selects exactly the files it describes."""
import itertools, re
from props.core import *

ASSUMPTIONS = ["excluded, as the property says: directory segments made only of stars (they also match zero levels) and '.'/'..' segments",
               "os.ReadDir is modelled as the sorted list of children; symlinks are not created",
               "the expected lists come from a Python matcher (star = any run of characters) independent of the model"]


def star_match(pat, name):
    rx = "^" + ".*".join(re.escape(x) for x in pat.split("*")) + "$"
    return re.match(rx, name, re.S) is not None


def expected(tree_files, pat):
    segs = pat.split("/")
    out = []
    for f in tree_files:
        parts = f.split("/")
        if len(parts) == len(segs) and all(star_match(s, p) for s, p in zip(segs, parts)):
            out.append("/" + f)
    return sorted(out)


def tree_sexp(entries):
    """entries: list of (path, isdir) -> nested sexp of children sorted by name"""
    root = {}
    for p, isd in entries:
        cur = root
        parts = p.split("/")
        for i, part in enumerate(parts):
            last = i == len(parts) - 1
            if last and not isd:
                cur[part] = None
            else:
                cur = cur.setdefault(part, {})
    def render(d):
        out = []
        for k in sorted(d):
            if d[k] is None:
                out.append("(f h%s)" % k.encode().hex())
            else:
                out.append("(d h%s (%s))" % (k.encode().hex(), " ".join(render(d[k]))))
        return out
    return "(" + " ".join(render(root)) + ")"


def run(ctx):
    quick = ctx.quick()
    rng = ctx.rng
    ev = 0
    nt = 0
    # 1. exhaustive: all patterns over {a,b,.,*} x all names over {a,b,.} up to a length, in one directory
    L = 4 if quick else 5
    names = ["".join(t) for n in range(1, L + 1) for t in itertools.product("ab.", repeat=n)]
    names = [n for n in names if n not in (".", "..")]
    pats = ["".join(t) for n in range(1, L + 1) for t in itertools.product("ab.*", repeat=n)]
    pats = [p for p in pats if p not in (".", "..")]
    if quick:
        # a sample of all patterns, plus longer ones with two and three stars whose literal pieces repeat (the pieces of a pattern must be found in order, without overlap)
        longer = ["".join(t) for n in (5, 6) for t in itertools.product("ab*", repeat=n) if 2 <= t.count("*") <= 3 and t[0] != "*"]
        pats = rng.sample(pats, 300) + rng.sample(longer, 150) + ["a**a*", "a*a*a*", "a*b*b*", "ab*b*a", "a*a*a", "a*ab*b", "aa*a*a*",
                                                                   # one star, the text before it ending as the text after it begins (a name shorter than both together must not match)
                                                                   "a*a", "ab*b", "ab*ba", ".a*a.", "aa*a", "a*aa", "ab*ab", "b.*.b", "a.*.a"]
    chunks = [pats[i:i + 150] for i in range(0, len(pats), 150)]
    cases = [{"op": "glob", "tree": [[n, False] for n in names], "patterns": ch} for ch in chunks]
    res = vh.run_cases(cases, shards=8, timeout_ms=120000)
    mlines = ["(p%d pm h%s (%s))" % (i, p.encode().hex(), " ".join("h" + n.encode().hex() for n in names)) for i, p in enumerate(pats)]
    mres = model.run_model(mlines, shards=8)
    pi = 0
    for ch, r in zip(chunks, res):
        if "lists" not in r:
            ctx.violation("GetFileList panicked or did not return", {"patterns": ch[:3], "result": {k: r[k] for k in r if k in ("panic", "hang")}})
            pi += len(ch)
            continue
        for p, got in zip(ch, r["lists"]):
            ev += 1
            want = sorted("/" + n for n in names if star_match(p, n))
            if sorted(got) != want or len(got) != len(set(got)):
                missing = sorted(set(want) - set(got))[:5]
                extra = sorted(set(got) - set(want))[:5]
                ctx.violation("pattern %r over one directory: files missing %r, extra %r, duplicates %s" % (p, missing, extra, len(got) != len(set(got))),
                              {"pattern": p, "names_alphabet": "ab.", "max_length": L, "missing": missing, "extra": extra})
            elif want and "*" in p:
                nt += 1
            mk = "p%d" % pi
            if mk in mres:
                mwant = "(" + " ".join("t" if star_match(p, n) else "f" for n in names) + ")"
                if mres[mk] != mwant:
                    ctx.corr_break("CORR-PM", {"pattern": p})
            pi += 1
    # 2. directory trees to depth 3, relative and absolute patterns
    tcases, tmeta = [], []
    # names and patterns with characters of several bytes: a name matches a pattern byte for byte, whatever the sizes in characters
    u_dirs = ["d\u00e9", "\u00fc"]
    u_files = ["\u00e9", "\u00e9.txt", "a\u00e9", "\u00e9a", "\u65e5\u672c.txt", "\u20ac", "e", "d\u00e9/\u00e9", "d\u00e9/x\u00e9y.txt", "\u00fc/\u20ac", "\u00fc/a\u20ac"]
    u_pats = ["\u00e9", "*\u00e9", "\u00e9*", "*\u00e9*", "*.txt", "d*/\u00e9", "d\u00e9/*", "*\u00e9/\u00e9*", "\u00fc/*\u20ac", "\u20ac", "*", "e", "\u00e9.txt", "*\u672c.txt", "\u65e5*", "d*/*\u00e9*", "*\u00fc*/*", "a\u00e9", "*a"]
    u_entries = [[d, True] for d in u_dirs] + [[f, False] for f in u_files]
    for ab in (False, True):
        tcases.append({"op": "glob", "tree": u_entries, "patterns": u_pats, "absolute": ab})
        tmeta.append((sorted(u_files), u_entries, u_pats, ab))
    for i in range(40 if quick else 6000):
        dirs = set()
        files = set()
        for _ in range(rng.randint(2, 10)):
            depth = rng.randint(0, 3)
            parts = [rng.choice(["a", "b", "ab", "a.b", "src", "x1", ".a", ".ba", "a.", "..a", "-a", "_b", " a"]) for _ in range(depth)]
            for k in range(1, len(parts) + 1):
                dirs.add("/".join(parts[:k]))
            fn = rng.choice(["a", "b.txt", "a.txt", "a.txt.txt", "ab", "abxb", "x", "b", ".a", ".txt", "a.", "x.t.txt"])
            files.add("/".join(parts + [fn]))
        files = {f for f in files if f not in dirs}
        dirs = {d for d in dirs if d not in files}
        entries = [[d, True] for d in sorted(dirs)] + [[f, False] for f in sorted(files)]
        pl = []
        for _ in range(12):
            depth = rng.randint(0, 3)
            segs = [rng.choice(["a", "b", "a*", "*b", "a*b", "s*", "x1", "*.*", "ab", "?", "*a", ".*", ".*a", "*.a", "*a*", "-*", "* a"]) for _ in range(depth)]
            segs.append(rng.choice(["*", "*.txt", "a*", "a*b", "*a*", "b.txt", "a", "*.t*t", "**", ".*", "*a", "x"]))
            pl.append("/".join(segs))
        absolute = rng.random() < 0.3
        tcases.append({"op": "glob", "tree": entries, "patterns": pl, "absolute": absolute})
        tmeta.append((sorted(files), entries, pl, absolute))
    # directory sizes: the listing of a directory must not depend on how many entries it has (chunked reads, capacity boundaries)
    counts = [0, 1, 2, 31, 32, 33, 63, 64, 65, 127, 128, 129, 192, 256] if quick else list(range(0, 70)) + list(range(120, 136)) + list(range(188, 196)) + [255, 256, 257, 511, 512, 513, 1024]
    for n in counts:
        for nd in (0, 4):
            if n < nd:
                continue
            names = ["f%04d.txt" % k for k in range(n - nd)]
            subd = ["sub%d" % k for k in range(nd)]
            entries = [[d, True] for d in subd] + [[f, False] for f in names] + [[d + "/x.txt", False] for d in subd]
            files = sorted(names + [d + "/x.txt" for d in subd])
            tcases.append({"op": "glob", "tree": entries, "patterns": ["*", "*.txt", "f*", "f0*1.txt", "sub*/x.txt"], "absolute": False})
            tmeta.append((files, entries, ["*", "*.txt", "f*", "f0*1.txt", "sub*/x.txt"], False))
            nested = [["top", True], ["top/in", True]] + [["top/in/" + f, False] for f in names]
            tcases.append({"op": "glob", "tree": nested, "patterns": ["top/in/*", "t*/i*/*.txt", "top/*/f*"], "absolute": n % 2 == 1})
            tmeta.append((sorted("top/in/" + f for f in names), nested, ["top/in/*", "t*/i*/*.txt", "top/*/f*"], n % 2 == 1))
    # sibling directories in which matching and non-matching names alternate in sorted order, under directory segments with one, two and three stars
    alt_dirs = ["a", "b", "ca", "d", "ea", "ab", "ba", "bab", "c.a", "aXa"]
    alt_entries = [[d, True] for d in alt_dirs] + [[d + "/f", False] for d in alt_dirs] + [[d + "/g.txt", False] for d in alt_dirs[::2]]
    alt_files = sorted([d + "/f" for d in alt_dirs] + [d + "/g.txt" for d in alt_dirs[::2]])
    alt_pats = ["*a*/f", "a*/f", "*a/f", "*a*a*/f", "a*b*/f", "*/f", "*b*/*", "*a*/*.txt", "a*a/f", "*.*/f", "b*/g.txt", "*a*/g*"]
    for ab in (False, True):
        tcases.append({"op": "glob", "tree": alt_entries, "patterns": alt_pats, "absolute": ab})
        tmeta.append((alt_files, alt_entries, alt_pats, ab))
    tres = vh.run_cases(tcases, shards=8)
    tl = ["(t%d glob %s (%s))" % (i, tree_sexp(m[1]), " ".join("h" + p.encode().hex() for p in m[2])) for i, m in enumerate(tmeta)]
    tm = model.run_model(tl, shards=8)
    for i, ((files, entries, pl, absolute), r) in enumerate(zip(tmeta, tres)):
        if "lists" not in r:
            ctx.violation("GetFileList panicked or did not return on a tree", {"tree": entries, "patterns": pl, "panic": r.get("panic")})
            continue
        mk = "t%d" % i
        mo = model.parse_sexp(tm[mk]) if mk in tm and tm[mk].startswith("(") else None
        for k, (p, got) in enumerate(zip(pl, r["lists"])):
            ev += 1
            want = expected(files, p)
            if sorted(got) != want or len(got) != len(set(got)):
                ctx.violation("pattern %r on a directory tree (%s): the file list is not the set of matching regular files" % (p, "absolute" if absolute else "relative"),
                              {"tree": entries, "pattern": p, "absolute": absolute, "got": sorted(got), "expected": want})
            elif want:
                nt += 1
            if mo is not None:
                mgot = sorted(bytes.fromhex(x[1:]).decode() for x in mo[k])
                if mgot != sorted(got):
                    ctx.corr_break("CORR-GLOB", {"tree": entries, "pattern": p, "model": mgot, "implementation": sorted(got)})
    # 3. the same through the command line: `vore -files <pattern>` searches exactly the files of the list (the path from the flag to GetFileList is glue of its own).
    # Every file holds one 'x', so the file names in the JSON result are the list; star-free patterns naming a file, a directory or nothing are included.
    import json, os, shutil, subprocess, tempfile
    cli = vh.build_cli()
    base = os.path.join(vh.scratch(), "c20cli")
    os.makedirs(base, exist_ok=True)
    jobs = []
    for files, entries, pl, absolute in tmeta[:(25 if quick else 400)]:
        if any(len(e[0]) > 200 for e in entries) or len(entries) > 60:
            continue
        dirs = [e[0] for e in entries if e[1]]
        plain = [q for q in (rng.sample(dirs, min(2, len(dirs))) + rng.sample(files, min(2, len(files))) + ["nosuch", "nosuch/a"]) if "*" not in q]
        jobs.append((files, entries, (list(pl) if entries is u_entries else list(pl)[:6]) + plain, absolute))
    def run_tree(job):
        files, entries, pl, absolute = job
        d = tempfile.mkdtemp(prefix="t", dir=base)
        for path, isdir in entries:
            full = os.path.join(d, path)
            if isdir:
                os.makedirs(full, exist_ok=True)
            else:
                os.makedirs(os.path.dirname(full), exist_ok=True)
                open(full, "w").write("x")
        out = []
        for pat in pl:
            arg = os.path.join(d, pat) if absolute else pat
            try:
                pr = subprocess.run([cli, "-com", "find all 'x'", "-files", arg, "-json"], cwd=d, capture_output=True, timeout=30)
                out.append((pat, pr.returncode, pr.stdout.decode("utf-8", "replace"), pr.stderr.decode("utf-8", "replace")))
            except subprocess.TimeoutExpired:
                out.append((pat, -9, "", "timeout"))
        shutil.rmtree(d, ignore_errors=True)
        return d, out
    from concurrent.futures import ThreadPoolExecutor
    with ThreadPoolExecutor(12) as ex:
        cres = list(ex.map(run_tree, jobs))
    cli_runs = 0
    for (files, entries, pl, absolute), (d, outs) in zip(jobs, cres):
        for pat, rc, so, se in outs:
            cli_runs += 1
            ev += 1
            want = expected(files, pat)
            rep = {"tree": entries, "pattern": pat, "absolute": absolute, "argv": ["-com", "find all 'x'", "-files", ("<root>/" if absolute else "") + pat, "-json"], "exit": rc,
                   "stdout": so[:300], "stderr": se[:300]}
            if "panic" in se or "goroutine " in se or rc == -9:
                ctx.violation("the command line crashes or hangs on -files %r" % pat, rep)
                continue
            try:
                doc = json.loads(so)
                got = []
                for m in doc:
                    fn = m["filename"]
                    fn = os.path.relpath(os.path.normpath(fn), d) if os.path.isabs(os.path.normpath(fn)) else os.path.normpath(fn)
                    got.append("/" + fn)
            except Exception:
                got = []
            if sorted(got) != want:
                ctx.violation("`vore -files %r` searches %r, the matching regular files are %r" % (pat, sorted(got), want), dict(rep, expected=want, searched=sorted(got)))
            elif want:
                nt += 1
    ctx.coverage["command_line_runs"] = cli_runs
    ctx.coverage["evaluations"] = ev
    ctx.coverage["distinct_nontrivial"] = nt
    ctx.coverage["exhaustive"] = not quick
    ctx.coverage["rule"] = ("all patterns over {a,b,.,*} (any number of stars) up to length %d x all names over {a,b,.} up to length %d in one scratch directory (complete in the thorough tier); "
                            "generated trees to depth 3 with relative and absolute patterns against real scratch directories; expected lists from an independent Python matcher; non-trivial = "
                            "patterns with a star selecting at least one file" % (L, L))
    ctx.sample({"pattern": pats[0], "names": names[:5]})
    ctx.sample({"tree": tmeta[0][1][:6], "patterns": tmeta[0][2][:3]})


def replay(ctx, obj):
    print(obj)
