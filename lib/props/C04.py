"""C04: all/skip/take/top/last select windows of one match sequence (find and replace)."""
import vh, model, corr_core, genprog
from props.common import *

ASSUMPTIONS = [
    "spec = list slicing of the implementation's own `find all` result (independent of the model)",
    "replace commands are compared with `with` items that do not read totalMatches (which is the window size by design)",
]

BODIES = ["'aa'", "at least 1 'a'", "'a' maybe 'a'", "'ab' or 'a'", "any any", "between 1 and 2 'a' 'b'",
          "at least 1 ('a' or 'b') fewest 'a'", "'a' = x maybe x", "not 'b' maybe 'a'", "letter word end",
          # bodies that can match the empty string: an empty match is never a match, under any amount clause
          "maybe 'a'", "at least 0 'a'", "at most 2 'b'", "maybe 'a' maybe 'b'", "at least 0 ('a' or 'b') fewest",
          # a body that is one single instruction (the shapes a shortcut would single out)
          "caseless 'ab'", "caseless 'A'", "'a'", "any", "not 'a'", "letter"]


def clauses(K):
    out = [("all", None)]
    for n in range(0, K + 1):
        out.append(("top %d" % n, ("take", 0, n)))
        out.append(("take %d" % n, ("take", 0, n)))
        out.append(("skip %d" % n, ("skip", n, None)))
        if n >= 1:
            out.append(("last %d" % n, ("last", n, None)))
        for t in range(0, K + 1):
            out.append(("skip %d take %d" % (n, t), ("take", n, t)))
    return out


def expected(A, spec):
    if spec is None:
        return A
    kind, a, b = spec
    if kind == "take":
        return A[a:a + b]
    if kind == "skip":
        return A[a:]
    if kind == "last":
        return A[max(0, len(A) - a):]


def strip_repl(m):
    return m[:9] + ["none"] + m[10:]


def run(ctx):
    rng = ctx.rng
    quick = ctx.quick()
    texts = [t for t in all_texts("ab", 4 if quick else 6)]
    texts += [E2 + "a" + E2 + "a", E2 + E2 + "a" + E2, "a" + E2 + "a" + E3 + "aa", E4 + E4 + "ab" + E4]      # matches of several bytes: a window counts MATCHES
    texts += ["aaaaaaa", "abaabaaab", "aa\naa\naaa", "a a aa aaa", "AB ab Ab ab", "aAaA", "a\nA\na"]
    bodies = list(BODIES)
    g = genprog.ProgGen(rng, allow_global=False, allow_named=False)
    for _ in range(4 if quick else 30):
        g.reset_cmd()
        bodies.append(g.exprs(0))
    K = 4 if quick else 7
    cls = clauses(K)
    if quick:
        keep = [c for c in cls if c[1] is None] + rng.sample([c for c in cls if c[1] is not None], 24)
        cls = keep
    cases = []
    meta = []
    for b in bodies:
        for kind in ("find", "replace"):
            for ctext, spec in cls:
                if kind == "find":
                    src = "find %s %s" % (ctext, b)
                else:
                    src = "replace %s %s with '<' value '>' matchNumber" % (ctext, b)
                cases.append({"src": src, "texts": texts})
                meta.append((b, kind, ctext, spec))
    # long match sequences: the window bookkeeping (a sliding queue for `last`) must not depend on how many matches there are
    long_lens = list(range(30, 75)) + [99, 100, 127, 128, 129, 130, 131] + ([] if quick else list(range(75, 99)) + list(range(132, 200)) + [255, 256, 257, 300])
    long_texts = ["a" * L for L in long_lens] + ["ab" * (L // 2) for L in long_lens[::3]]
    long_cls = [("all", None)] + [("last %d" % n, ("last", n, None)) for n in (1, 2, 3, 5, 8, 16, 31, 32, 33, 40, 64)] + \
               [("skip %d take %d" % (a, b), ("take", a, b)) for a, b in ((0, 33), (31, 2), (32, 1), (33, 40), (64, 64))] + [("skip 40", ("skip", 40, None))] + \
               [("top 010", ("take", 0, 10)), ("skip 012", ("skip", 12, None)), ("last 010", ("last", 10, None)), ("skip 010 take 02", ("take", 10, 2)), ("take 08", ("take", 0, 8)), ("top 09", ("take", 0, 9)),
                ("skip 0100", ("skip", 100, None)), ("top 0012", ("take", 0, 12)), ("skip 00 take 011", ("take", 0, 11))]
    for b in ("'a'", "'ab' or 'a'"):
        for kind in ("find", "replace"):
            for ctext, spec in long_cls:
                src = ("find %s %s" % (ctext, b)) if kind == "find" else ("replace %s %s with '<' value '>' matchNumber" % (ctext, b))
                cases.append({"src": src, "texts": long_texts})
                meta.append((b + " (long)", kind, ctext, spec))
    # captures that only SOME matches bind, written by the replacer: the replacement of a match depends on that match alone, wherever the window starts
    capbodies = ["('a' = s) or 'b'", "maybe ('a' = s) 'b'", "at least 0 ('a' = s) 'b'", "('a' = s 'a') or ('a' = t) or 'b'", "(letter = s) maybe ('a' = t)"]
    for b in capbodies:
        for ctext, spec in cls:
            cases.append({"src": "replace %s %s with '<' s '|' t '>' matchNumber" % (ctext, b), "texts": texts})
            meta.append((b + " (captures in the replacer)", "replace", ctext, spec))
    gres, dis, stats = corr_core.run_core(cases, shards=12)
    # index of the `all` case per (body, kind)
    base = {}
    for i, (b, kind, ctext, spec) in enumerate(meta):
        if spec is None:
            base[(b, kind)] = i
    evals = 0
    nontrivial = set()
    for i, (b, kind, ctext, spec) in enumerate(meta):
        gi = gres[i]
        gb = gres[base[(b, kind)]]
        if "matches_list" not in gi or "matches_list" not in gb:
            continue
        for ti, t in enumerate(cases[i]["texts"]):
            if ti >= len(gi["matches_list"]) or ti >= len(gb["matches_list"]):
                break
            A = parse_matches(gb["matches_list"][ti])
            W = parse_matches(gi["matches_list"][ti])
            evals += 1
            exp = expected(A, spec)
            if len(A) >= 2 and spec is not None:
                nontrivial.add((b, kind, ctext, t))
            if W != exp:
                ctx.violation("window %r of body %r is not the slice of `%s all`" % (ctext, b, kind),
                              {"source": cases[i]["src"], "all_source": cases[base[(b, kind)]]["src"], "text": t,
                               "implementation_window": model.to_sexp(W), "expected_slice_of_all": model.to_sexp(exp)})
                break
    report_core_disagreements(ctx, cases, dis, in_scope=lambda c, d: "named" not in c["src"], known=known_core)
    ctx.coverage["evaluations"] = evals
    ctx.coverage["distinct_nontrivial"] = len(nontrivial)
    ctx.coverage["rule"] = ("bodies whose matches can overlap (fixed list + generated) x texts (all strings over {a,b} up to a length + long ones) "
                            "x every amount clause with s,t,n in 0..K, find and replace; texts with 30..131 (thorough: ..300) matches x last/skip/take with amounts up to 64; non-trivial = distinct (body,kind,clause,text) with |A| >= 2")
    ctx.coverage["exhaustive"] = not quick
    ctx.coverage["model_agreement"] = stats
    ctx.sample({"source": cases[1]["src"], "text": texts[7]})
    ctx.sample({"source": cases[-1]["src"], "text": texts[-1]})


def replay(ctx, obj):
    r = vh.run_cases([{"op": "e2e", "src_hex": vh.hexs(obj["source"]), "text_hex": vh.hexs(obj["text"])},
                      {"op": "e2e", "src_hex": vh.hexs(obj["all_source"]), "text_hex": vh.hexs(obj["text"])}])
    print(r[0].get("matches"), r[1].get("matches"))
