"""C19: Compile and Run are safe to call from many goroutines."""
import os, subprocess, re
from props.core import *

ASSUMPTIONS = ["the Go memory model and scheduler are not in the model: a data race is exhibited only by the -race harness (dynamic, schedule dependent)",
               "the footprint scanner (/verif/scanner, go/parser + go/ast, syntactic name resolution and call graph) is a trusted translator",
               "math/rand's global source is internally locked (runtime library)"]
TRUSTED_EXTRA = ["/verif/scanner: translator from the Go source to Generated/Footprint.v (run on every check)"]

SOURCES = ["find all @/(a)(b)(c)\\3\\2\\1/", "find all @/((a)|b)+c/", "find all 'a' or 'b'", "set p to pattern at least 1 digit\nfind all p '-' p",
           "find all {'(' maybe s ')'} = s", "replace all (letter = x) x with x", "find all @/(x)(y)?/", "find all (",
           # group numbers run across all regex literals of one source: numbering must be atomic per Compile
           "find all @/(a)(b)/ '-' @/(c)(d)/", "find all @/\\\\(a)\\\\(b)/", "find all @/\\((a)\\)/",
           # sources that are rejected AFTER a numbered group was opened: nothing of a failed Compile may be left for the next one
           "find all @/(a/", "find all @/(a)(b)/ =", "find all @/(a)/ find 3x", "find all @/((a)(b)/", "find all @/a/ @/(b)\\1/ @/(c)\\2/", "find all @/(a)/\nfind all @/(b)(c)\\3/", "find all @/(a)(b)/ @/\\3/",
           # named loops (their ids come from the generator too), nested in each other
           "find all at least 1 (letter = c) named cs", "find all at least 1 (at least 1 digit named ds '-') named groups", "find all between 1 and 2 (at least 1 'a' named as 'b') named abs",
           # unnamed loops directly inside loops: their ids are drawn one after the other from the process-wide source; whatever other goroutines do in between,
           # the ids of one program must stay distinct
           "find all at least 1 (maybe 'a' 'b')", "find all @/(a*b)+/", "find all between 2 and 3 (at least 1 'a' 'b')", "find all at least 0 (at most 2 (maybe 'a') 'b') 'c'",
           "find all at least 1 (at least 1 (maybe 'a') 'b' fewest)",
           # process code run by several goroutines on one shared program: transforms and predicates whose bodies end with and without a return, of 1 to 7 statements
           "set f to transform set a to match set b to a + 'x' if a == 'q' then return b end end\nreplace all letter with f",
           "set f to transform set a to match set b to a set c to b set d to c if d == 'q' then return a end end\nreplace all digit with f f",
           "set p to pattern letter begin set a to match set b to a if a == b then return true end end\nfind all p p",
           "set p to pattern digit begin set a to 1 set b to 2 set c to 3 set d to 4 set e to 5 if match == '1' then return true end end\nset f to transform return match + '!' end\nreplace all p with f",
           "set f to transform set a to 1 set b to 2 set c to 3 set d to 4 set e to 5 set g to 6 debug g end\nreplace all 'a' with f"]
TEXTS = ["abccba", "aabc", "12-34", "(())", "aa bb", "xy", "ab-cd", "abbcc", "1-22-", "aabab"]
# texts beyond one read window, different from each other: reads of thousands of bytes (whole file, long literals, long gaps of a replace) in flight in
# several goroutines at once - with programs that stay linear on them
BIG_TEXTS = ["a" * 4100, "b" * 4099 + "c", "xy"]
BIG_SOURCES = ["find all whole file", "find all (whole file) = all", "replace top 1 'c' with 'C'", "find top 1 '" + "a" * 4098 + "'"]


def generate_footprint():
    """run the scanner on /repo now; returns (path, text)"""
    exe = os.path.join(vh.scratch(), "vscanner")
    env = dict(vh.GOENV)
    p = subprocess.run(["go", "build", "-o", exe, "."], cwd=os.path.join(vh.VERIF, "scanner"), env=env, capture_output=True, text=True)
    if p.returncode != 0:
        raise vh.BuildError("scanner: " + p.stdout + p.stderr)
    os.makedirs(os.path.join(vh.VERIF, "coq", "Generated"), exist_ok=True)       # ignored by git: absent in a fresh checkout
    out = os.path.join(vh.VERIF, "coq", "Generated", "Footprint.v")
    p = subprocess.run([exe, "/repo/libvore", out], capture_output=True, text=True)
    if p.returncode != 0:
        raise vh.BuildError("scanner failed: " + p.stderr)
    return out, open(out).read()


def run(ctx):
    quick = ctx.quick()
    fp, text = generate_footprint()
    m = re.search(r"unsynchronised_accesses[^=]*:= \[(.*?)\]\.", text, re.S)
    unsync = m.group(1).strip() if m else "?"
    m2 = re.search(r"program_writes_at_run_time[^=]*:= \[(.*?)\]\.", text, re.S)
    progw = m2.group(1).strip() if m2 else "?"
    m3 = re.search(r"library_state_resets[^=]*:= \[(.*?)\]\.", text, re.S)
    ctx.coverage["footprint"] = {"unsynchronised_accesses": unsync, "program_writes_at_run_time": progw, "library_state_resets": m3.group(1).strip() if m3 else "?",
                                 "package_vars": re.search(r"package_vars[^=]*:= \[(.*?)\]\.", text, re.S).group(1)}
    # dynamic search for a failing schedule: the -race harness
    exe = vh.build_harness(race=True)
    rounds = 3 if quick else 20
    cases = [{"op": "conc", "sources_hex": [vh.hexs(s) for s in SOURCES], "texts_hex": [vh.hexs(t) for t in TEXTS],
              "goroutines": 8 if quick else 16, "iters": 100 if quick else 400},
             {"op": "conc", "sources_hex": [vh.hexs(s) for s in BIG_SOURCES], "texts_hex": [vh.hexs(t) for t in BIG_TEXTS],
              "goroutines": 6, "iters": 4 if quick else 40}]
    # group numbers run through ALL the regex literals of one source: many rounds on just the sources with several literals (a lock held literal by literal shows only in the gaps)
    multi = [s for s in SOURCES if s.count("@/") >= 2]
    if multi:
        cases.append({"op": "conc", "sources_hex": [vh.hexs(s) for s in multi], "texts_hex": [vh.hexs(t) for t in TEXTS[:4]], "goroutines": 12, "iters": 150 if quick else 600})
    ev = 0
    races = 0
    mism = []
    import tempfile, json, shutil
    for rnd in range(rounds):
        d = tempfile.mkdtemp(prefix="race-", dir=vh.scratch())
        fin, fout = os.path.join(d, "in.jsonl"), os.path.join(d, "out.jsonl")
        open(fin, "w").write("".join(json.dumps(dict(c, id=k)) + "\n" for k, c in enumerate(cases)))
        env = dict(os.environ, GORACE="halt_on_error=0 exitcode=0 log_path=" + os.path.join(d, "race"))
        p = subprocess.run([exe, "-in", fin, "-out", fout, "-timeout", "120000"], capture_output=True, text=True, env=env, cwd=d, timeout=300)
        reports = ""
        for f in os.listdir(d):
            if f.startswith("race"):
                reports += open(os.path.join(d, f)).read()
        reports += p.stderr
        if "DATA RACE" in reports:
            races += 1
            first = reports[reports.index("DATA RACE") - 20:][:1500]
            ctx.violation("the race detector reports unsynchronised conflicting accesses while goroutines compile and run concurrently",
                          {"sources": SOURCES + BIG_SOURCES, "texts": TEXTS + [t[:40] + "... (%d bytes)" % len(t) for t in BIG_TEXTS], "goroutines": cases[0]["goroutines"], "race_report": first})
        if os.path.exists(fout):
            for line in open(fout):
                r = json.loads(line)
                ev += r.get("calls", 0)
                if r.get("mismatches"):
                    mism += r["mismatches"]
                if "panic" in r:
                    mism.append("panic: " + r["panic"])
        shutil.rmtree(d, ignore_errors=True)
        if races or mism:
            break
    if mism:
        ctx.violation("a concurrent call returned something else than the same call executed alone",
                      {"sources": SOURCES, "texts": TEXTS, "mismatches": mism[:5]})
    if (unsync or progw) and not ctx.violations:
        ctx.corr_break("FOOTPRINT", {"unsynchronised_accesses": unsync, "program_writes_at_run_time": progw,
                                      "note": "the generated hypothesis of C19_footprint_disjoint no longer holds; the race harness exhibited no failing schedule"})
    ctx.coverage["evaluations"] = ev
    ctx.coverage["distinct_nontrivial"] = ev
    ctx.coverage["race_rounds"] = rounds
    ctx.coverage["rule"] = ("source scan of all libvore packages on every run (package-level variables, their readers/writers, reachability from the entry points outside a mutex, "
                            "engine writes through bytecode/ast values) + rounds of %d goroutines compiling %d sources (with and without regex groups, several regex literals in one source, rejected ones) and running shared and "
                            "private programs under the race detector, every result compared with the sequential one; evaluations = concurrent library calls" % (cases[0]["goroutines"], len(SOURCES)))
    ctx.sample({"sources": SOURCES[:3], "texts": TEXTS[:2], "goroutines": cases[0]["goroutines"]})


def replay(ctx, obj):
    print(obj)
