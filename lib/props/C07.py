"""C07: searching a file gives the same result as searching its bytes in memory."""
from props.core import *

ASSUMPTIONS = ["os.File.ReadAt / Read are modelled as 'as many bytes as the file has from the offset, at most the buffer'; the OS is not in the model",
               "the model is instantiated with buffer size 4096 (the Go constant); the theorem holds for every buffer size > 0"]

BSZ = 4096


def content(rng, n):
    if n == 0:
        return b""
    # aperiodic: every block carries its own offset, so a block read from the wrong place is never equal to the right one
    out = bytearray()
    while len(out) < n:
        out += b"%d:" % len(out)
        out += bytes(rng.choice(b"abcdefgh \n0123") for _ in range(rng.randint(1, 9)))
    return bytes(out[:n])


def history(rng, size, k):
    ops = []
    pos = 0
    for _ in range(k):
        r = rng.random()
        ln = rng.choice([1, 1, 1, 2, 3, 7, 64, 300])
        if r < 0.35:
            pos = pos + rng.choice([0, 1, 1, 2, ln])               # forward run
        elif r < 0.5:
            pos = max(0, pos - 1)                                   # one byte back (anchors)
        elif r < 0.65:
            pos = max(0, pos - rng.choice([10, 500, 2047, 2048, 2049, 4095, 4096, 5000]))   # far back (backtracking)
        elif r < 0.8:
            b = rng.choice([2048, 4096, 6144, 8192])
            pos = max(0, b - rng.choice([0, 1, 2, 3, ln]))          # straddling a window edge
        elif r < 0.9:
            pos = max(0, size - rng.choice([0, 1, 2, ln, ln + 1]))  # at / near the end
        else:
            pos = rng.randint(0, size + 5)
        if rng.random() < 0.05:
            ln = 0
        if rng.random() < 0.07:
            ln = rng.choice([4095, 4096, 4097, 5000, 6144, 8191, 8192, 9000, 12000])     # reads longer than the window (whole file, long literals, gap copies)
        ops.append([pos, ln])
    return ops


def run(ctx):
    quick = ctx.quick()
    rng = ctx.rng
    sizes = [0, 1, 2, 2047, 2048, 2049, 4095, 4096, 4097, 6143, 6144, 6145, 8191, 8192, 8193, 12288, 16000]
    if not quick:
        sizes += [12289, 20000, 40000]
    cases, meta = [], []
    for sz in sizes:
        for rep in range(2 if quick else 60):
            c = content(rng, sz)
            ops = history(rng, sz, 60 if quick else 300)
            if rep == 0:
                # a read that touches the end of the file exactly (and one beyond it), then reads far below it: the window moved by the first must not be taken for the file's head
                ops = [[sz, 1], [0, 3], [max(0, sz - 1), 1], [1, 2], [sz, 0], [max(0, sz - 2048), 4], [sz + 1, 1], [0, 1]] + ops
            cases.append({"op": "reader", "content_hex": c.hex(), "reads": ops})
            meta.append((c, ops))
    for sz in (0, 5, 4093, 4094, 6200):
        c = b"\xef\xbb\xbf" + content(rng, sz)           # a file that begins with a byte order mark: offset 0 is its first byte
        ops = [[0, 1], [0, 3], [0, 4], [3, 1], [1, 2], [0, len(c)], [len(c) - 1, 1], [2, 4094]] + history(rng, len(c), 30)
        cases.append({"op": "reader", "content_hex": c.hex(), "reads": ops})
        meta.append((c, ops))
    res = vh.run_cases(cases, shards=8, timeout_ms=30000)
    lines = []
    for i, (c, ops) in enumerate(meta):
        if len(c) <= 9000:
            lines.append("(r%d reader %d h%s (%s))" % (i, BSZ, c.hex(), " ".join("(%d %d)" % (o, l) for o, l in ops)))
    mres = model.run_model(lines, shards=8)
    ev = 0
    nt = 0
    for i, ((c, ops), r) in enumerate(zip(meta, res)):
        if "panic" in r or r.get("hang") or r.get("fatal") or r.get("oom"):
            ctx.violation("the buffered reader panicked or never returned", {"size": len(c), "reads": ops[:len(r.get("file", [])) + 1][-3:],
                                                                              "panic": r.get("panic"), "hang": r.get("hang")})
            continue
        if "file" not in r:
            continue
        for k, (o, l) in enumerate(ops):
            ev += 1
            want = c[o:o + l] if l > 0 and o + l <= len(c) else b""
            got = bytes.fromhex(r["file"][k][1:])
            gots = bytes.fromhex(r["string"][k][1:])
            if got != gots or got != want:
                ctx.violation("read %d bytes at offset %d of a %d-byte file: buffered reader, in-memory reader and the file's bytes differ" % (l, o, len(c)),
                              {"size": len(c), "content_hex_prefix": c[:64].hex(), "history": ops[:k + 1], "buffered": got.hex(), "in_memory": gots.hex(), "file_bytes": want.hex()})
                break
            if l > 0 and want:
                nt += 1
        mk = "r%d" % i
        if mk in mres:
            exp = "(ok " + " ".join("h" + (c[o:o + l] if l > 0 and o + l <= len(c) else b"").hex() for o, l in ops) + ")"
            if mres[mk] != exp.replace("(ok )", "(ok)") and mres[mk] != exp:
                ctx.corr_break("CORR-READER", {"size": len(c), "model": mres[mk][:300]})
    # RunFiles on a file vs Run on the same bytes
    # (program, largest file size it is run on): lazy/greedy loops over the whole file cost O(n^2) state copies
    progs = [("find all 'ab'", 10**9), ("find all at least 1 digit", 10**9), ("find all line start at least 1 any fewest line end", 10**9),
             ("find top 3 'h' at least 0 any fewest '3'", 10**9), ("find all word start at least 1 letter word end", 10**9),
             ("find last 2 'a' any any", 10**9), ("replace all digit with 'N'", 10**9), ("find all 'zzzz'", 10**9),
             ("find top 1 file start at least 0 any fewest file end", 2100), ("find top 1 at least 0 any 'zz'", 2),
             ("find all not letter not letter", 10**9), ("find all whole line", 10**9), ("find top 2 at least 3 (in 'a' to 'h')", 10**9),
             ("find all (letter = x) x", 10**9), ("find skip 2 take 2 in ' ', '\\n'", 10**9), ("find top 1 whole file", 10**9), ("replace all whole file with 'x'", 10**9),
             ("find all whole file", 10**9), ("find all (whole file 'NOPE') or whole file", 10**9), ("find all file start (exactly 2500 any) = h at least 0 any fewest h", 6000),
             ("find all between 2 and 5 any line end", 10**9),
             # several commands over one file: every command reads the file from the start, whatever the commands before it did with their reader
             ("replace all 'a' with 'b' find all 'c'", 10**9), ("replace all digit with '#'\nreplace all 'e' with 'E'", 10**9), ("find all 'a' find all 'b' find top 1 any", 10**9),
             ("replace top 1 'h' with 'H'\nfind all 'h' any\nreplace last 1 letter with ''", 10**9), ("set d to pattern digit\nreplace all d with 'N'\nfind all d d", 10**9)]
    rb, rmeta = [], []
    for sz in sizes:
        if sz > 9000:
            continue
        c = content(rng, sz)
        for p, lim in ([pp for pp in progs if 'whole file' in pp[0]] + rng.sample(progs[:19], 3) + rng.sample(progs[19:], 2) if quick else progs):
            if sz > lim:
                continue
            rb.append({"op": "runboth", "src_hex": vh.hexs(p), "content_hex": c.hex()})
            rmeta.append((p, sz, c))
    # a byte order mark, characters of several bytes, stray bytes: part of the text, on a file as in memory
    for c in (b"\xef\xbb\xbfab 12 ab", b"\xef\xbb\xbf", b"ab\xef\xbb\xbfab", b"\xef\xbb\xbf\xef\xbb\xbfab\n12", b"\xc3\xa9ab \xe2\x82\xac12", b"\xff\xfea\x00b\x00", b"\xbb\xbfab", b"\xef\xbb\xbf" + content(rng, 4094), b"\xef\xbb\xbf" + content(rng, 6200)):
        for p in ("find all 'ab'", "find all any", "find all file start any", "find all at least 1 digit", "find top 1 whole file", "find all line start at least 1 any fewest line end", "replace all 'ab' with 'X'", "find last 1 any any any"):
            rb.append({"op": "runboth", "src_hex": vh.hexs(p), "content_hex": c.hex()})
            rmeta.append((p, len(c), c))
    rres = vh.run_cases(rb, shards=12, timeout_ms=60000)
    for (p, sz, c), r in zip(rmeta, rres):
        if "panic" in r or r.get("hang") or r.get("fatal"):
            ctx.violation("RunFiles panicked or never returned", {"source": p, "size": sz, "panic": r.get("panic"), "hang": r.get("hang")})
            continue
        if "mem" not in r:
            continue
        ev += 1
        if r["mem"] != r["file"]:
            ctx.violation("running the program on a file and on a string holding the same bytes gives different matches",
                          {"source": p, "size": sz, "content_hex_prefix": c[:64].hex(), "on_string": r["mem"][:400], "on_file": r["file"][:400]})
        elif r["mem"] != "()":
            nt += 1
    ctx.coverage["evaluations"] = ev
    ctx.coverage["distinct_nontrivial"] = nt
    ctx.coverage["file_sizes"] = sizes
    ctx.coverage["rule"] = ("file sizes 0, 1, 2, k*2048 +- 1 (k = 1..4) and larger x operation histories (forward runs, one byte back, far back, reads straddling the window, at and "
                            "beyond end of file, zero-length and over-long reads): ReaderFromFile vs ReaderFromString vs the file's bytes vs the model; RunFiles(NOTHING) vs Run on the same "
                            "bytes for programs that backtrack and look behind, and for programs of several commands (replace then find); non-trivial = reads returning data / runs with matches")
    ctx.sample({"size": len(meta[3][0]), "history": meta[3][1][:6]})


def replay(ctx, obj):
    print(obj)
