"""C06: replace output is the exact splice; each mode touches only the file it may."""
from props.core import *

ASSUMPTIONS = ["file system effects are observed on real scratch directories (snapshot before/after RunFiles)",
               "expected file contents are recomputed in Python from the implementation's own match list (gaps + replacements), and compared with the model's splice"]


def splice_py(content, matches):
    out = b""
    pos = 0
    for m in matches:
        s, e = int(m[2]), int(m[3])
        out += content[pos:s]
        out += b"" if m[9] == "none" else bytes.fromhex(m[9][1:])
        pos = e
    return out + content[pos:]


def run(ctx):
    quick = ctx.quick()
    rng = ctx.rng
    cases, meta = [], []
    bodies = ["'a'", "'ab'", "at least 1 'a'", "any", "digit", "'a' = x maybe 'b'", "line start any", "'zz'", "letter letter", "not 'a'"]
    repls = ["'X'", "'longer-than-the-match'", "''", "value value", "'<' x '>'", "matchNumber", "'a'"]
    contents = ["", "a", "banana", "aaaa", "ab ab ab", "xyz", "a\nab\n", "aXa", "ba" * 40, "a" * 100 + "b", "a-5b-c-7-\n", "xabyabz", "-1--2ab-"]
    # replacers made of variable references only: for a match in which none of them is bound the replacement is the empty string (the span disappears)
    varonly = [("'-' maybe (digit = d)", "d"), ("'ab'", "nothing"), ("'a' maybe ('b' = x)", "x"), ("('a' = x) or 'b'", "x x"), ("'-' maybe ('-' = m) maybe (digit = d)", "m d")]
    n = 120 if quick else 8000
    for i in range(n):
        b = rng.choice(bodies)
        if rng.random() < 0.3:
            g = genprog.ProgGen(rng, allow_named=False, allow_global=False)
            g.reset_cmd()
            b = g.exprs(0)
        kind = rng.choice(["replace", "replace", "replace", "find"])
        rp = rng.choice(repls)
        if "x" in rp.split() and "= x" not in b:
            rp = "'Q'"
        if rng.random() < 0.15:
            b, rp = rng.choice(varonly)
            kind = "replace"
        src = "replace all %s with %s" % (b, rp) if kind == "replace" else "find all %s" % b
        mode = rng.choice(["NOTHING", "NEW", "OVERWRITE"])
        nfiles = rng.choice([1, 1, 2, 3])
        files = [["f%d.txt" % k, rng.choice(contents) if rng.random() < 0.7 else genprog.gen_text(rng, "ab", 30)] for k in range(nfiles)]
        stale = rng.random() < 0.3
        allfiles = [[f, vh.hexs(c)] for f, c in files]
        if stale:
            allfiles.append([files[0][0] + ".vored", vh.hexs("STALE CONTENT THAT IS LONGER THAN ANYTHING ELSE " * 3)])
        allfiles.append(["bystander.dat", vh.hexs("do not touch")])
        cases.append({"op": "files", "src_hex": vh.hexs(src), "files": allfiles, "search": [f for f, _ in files], "mode": mode})
        meta.append((src, kind, mode, files, stale))
    # large files: long unmatched stretches before, between and after sparse matches (the copy loop reads gaps and tail in one piece,
    # through the 4096-byte window of the buffered reader)
    def big(n, marks):
        b = bytearray(rng.choice(b"xyz.- \n") for _ in range(n))
        for off in marks:
            b[off:off + 6] = b"needle"
        return bytes(b).decode("latin-1")
    bigs = [big(4096 + 6, [4096]), big(4096, []), big(8192 + 6 + 4096, [8192]), big(6 + 4096 + 6 + 8192, [0, 4096 + 6]), big(12288, []), big(28000, [14000]), big(9000, [100]), big(9000, [8990]), big(20000, [5000, 15000]), big(12289, []), big(4097, [4091]), big(8192, [4093, 8186]),
            big(30000, [10, 29990]), big(16384, [6000])]
    for content in (bigs if not quick else bigs[:8] + rng.sample(bigs[8:], 3)):
        for mode in ("NEW", "OVERWRITE", "NOTHING"):
            for src in ("replace all 'needle' with 'N'", "replace all 'needle' with '<<' value value '>>'"):
                if quick and mode != "OVERWRITE" and rng.random() < 0.5:
                    continue
                files = [["big.txt", content]]
                cases.append({"op": "files", "src_hex": vh.hexs(src), "files": [["big.txt", vh.hexs(content)], ["bystander.dat", vh.hexs("do not touch")]], "search": ["big.txt"], "mode": mode})
                meta.append((src, "replace", mode, files, False))
    # replacements longer for some matches and shorter for others, the differences cancelling out (same size, everything between the matches has to move)
    for src, content in (("replace all at least 1 'a' with 'bb'", "a.aaa!"), ("replace all at least 1 digit with 'NUM'", "id 12345, n 7 end"),
                         ("replace all at least 1 'a' with 'bb'", "aaa.a"), ("replace all ('x' or 'yyy') with 'zz'", "x-yyy-x-yyy"), ("replace all at least 1 'a' with 'bb'", "a.aaa.aa.aa")):
        for mode in ("NEW", "OVERWRITE", "NOTHING"):
            cases.append({"op": "files", "src_hex": vh.hexs(src), "files": [["f.txt", vh.hexs(content)], ["bystander.dat", vh.hexs("do not touch")]], "search": ["f.txt"], "mode": mode})
            meta.append((src, "replace", mode, [["f.txt", content]], False))
    # a file is its BYTES: a byte order mark, characters of several bytes and stray bytes are content like any other, read, matched, copied and written back as they are
    for src, content in (("replace all 'a' with 'bb'", BOM + "a.a"), ("replace all 'zz' with 'q'", BOM + "hello"), ("replace all any with 'x'", BOM + "ab"), ("replace all 'b' with ''", "ab" + BOM + "b" + BOM),
                         ("replace all '%s' with 'e'" % E2, "caf" + E2 + " " + E2 + E2), ("replace all 'a' with '%s'" % E3, E2 + "a" + E4 + "a\xff"), ("replace all file start any with 'S'", BOM + "abc"),
                         ("replace all 'a' with 'A'", "\xff\xfea\x00b\x00a\x00"), ("replace top 1 'b' with 'B'", BOM)):
        for mode in ("NEW", "OVERWRITE", "NOTHING"):
            cases.append({"op": "files", "src_hex": vh.hexs(src), "files": [["f.txt", vh.hexs(content)], ["bystander.dat", vh.hexs("do not touch")]], "search": ["f.txt"], "mode": mode})
            meta.append((src, "replace", mode, [["f.txt", content]], False))
    res = vh.run_cases(cases, shards=8)
    # model: what each replace command writes
    lines = []
    for i, (r, (src, kind, mode, files, stale)) in enumerate(zip(res, meta)):
        if "ast" in r and kind == "replace":
            for fi, (f, c) in enumerate(files):
                if len(c) > 5000:
                    continue          # large files: the Python splice is the oracle (the extracted model works in unary positions)
                lines.append("(s%d_%d splice %s h%s (h%s))" % (i, fi, r["ast"], vh.hexs("F"), vh.hexs(c)))
    mres = model.run_model(lines, shards=8)
    ev = 0
    nt = set()
    for i, (r, (src, kind, mode, files, stale)) in enumerate(zip(res, meta)):
        if "panic" in r or r.get("fatal"):
            ctx.violation("RunFiles panicked", {"source": src, "mode": mode, "files": [[f, c[:200] + ("... (%d bytes)" % len(c) if len(c) > 200 else "")] for f, c in files], "panic": r.get("panic")})
            continue
        if r.get("hang") or r.get("oom"):
            # a generated program that backtracks exponentially on this content: time is not this property's business (C10 decides termination);
            # it is a violation here only if the model finishes the same run within its step bound
            mk = [k for k in mres if k.startswith("s%d_" % i)]
            literal_only = src.startswith("replace all 'needle' with")      # the large-file programs: a literal pattern cannot backtrack
            if (mk and all(mres[k].startswith("(ok") for k in mk)) or literal_only:
                ctx.violation("RunFiles does not return although the model does (or the pattern is a literal)", {"source": src, "mode": mode, "files": [[f, c[:200]] for f, c in files]})
            else:
                ctx.coverage["expensive_programs_skipped"] = ctx.coverage.get("expensive_programs_skipped", 0) + 1
            continue
        if "snapshot" not in r:
            continue
        ev += 1
        snap = {k: bytes.fromhex(v) for k, v in r["snapshot"].items()}
        before = {f: c.encode("latin-1") for f, c in files}
        before["bystander.dat"] = b"do not touch"
        if stale:
            before[files[0][0] + ".vored"] = ("STALE CONTENT THAT IS LONGER THAN ANYTHING ELSE " * 3).encode()
        expected = dict(before)
        ms = parse_matches(r["matches"])
        byfile = {}
        for m, fn in zip(ms, r["filenames"]):
            byfile.setdefault(fn, []).append(m)
        if kind == "replace" and mode != "NOTHING":
            for f, c in files:
                sp = splice_py(c.encode("latin-1"), byfile.get(f, []))
                expected[f + ".vored" if mode == "NEW" else f] = sp
        if snap != expected:
            diff = {k: (expected.get(k, b"<absent>").decode("latin-1")[:80], snap.get(k, b"<absent>").decode("latin-1")[:80])
                    for k in set(snap) | set(expected) if snap.get(k) != expected.get(k)}
            ctx.violation("the directory after RunFiles is not what the mode allows (file -> (expected, found))",
                          {"source": src, "mode": mode, "files": [[f, c[:200] + ("... (%d bytes)" % len(c) if len(c) > 200 else "")] for f, c in files], "stale_vored": stale, "difference": diff})
            continue
        if kind == "replace":
            for fi, (f, c) in enumerate(files):
                k = "s%d_%d" % (i, fi)
                if k in mres and mres[k].startswith("(ok"):
                    mo = model.parse_sexp(mres[k])[1][0][0]
                    sp = splice_py(c.encode("latin-1"), byfile.get(f, []))
                    if mo != "none" and bytes.fromhex(mo[1:]) != sp:
                        ctx.corr_break("CORR-SPLICE", {"source": src, "file": c, "model": mo, "implementation_hex": sp.hex()})
                if byfile.get(f):
                    nt.add((src, mode, c))
    # several commands in one program: in mode OVERWRITE every command works on the file as the previous one left it - the program's effect is the effect of
    # its commands run one after the other (each single-command run is judged against the splice above)
    seqs = [(["replace all 'a' with 'bb'", "replace all 'b' with 'c'"], "xaxa-tail"), (["replace all 'a' with ''", "replace all 'x' with 'yy'", "find all 'y'"], "xaxa-tail"),
            (["find all 'a'", "replace all 'ab' with 'b'", "replace all 'b' with 'ab'"], "abab ab\nb"), (["replace all digit with '<' value '>'", "replace all '<' with '['"], "a1b22"),
            (["replace all 'needle' with 'N'", "replace all 'N' with 'needle needle'"], bigs[1])]
    first = []
    for cmds, content in seqs:
        for mode in ("OVERWRITE", "NEW"):
            first.append({"op": "files", "src_hex": vh.hexs(" ".join(cmds)), "files": [["f.txt", vh.hexs(content)]], "search": ["f.txt"], "mode": mode})
    fr = vh.run_cases(first, shards=1)
    k = 0
    for cmds, content in seqs:
        for mode in ("OVERWRITE", "NEW"):
            whole = fr[k]; k += 1
            if "snapshot" not in whole:
                ctx.violation("RunFiles of a program with several commands fails", {"source": " ".join(cmds), "mode": mode, "outcome": str({a: b for a, b in whole.items() if a in ("panic", "hang", "err")})[:300]})
                continue
            cur = {"f.txt": content.encode("latin-1")}
            okseq = True
            for c1 in cmds:
                step = vh.run_cases([{"op": "files", "src_hex": vh.hexs(c1), "files": [[n, vh.hexs(v.decode("latin-1"))] for n, v in sorted(cur.items())], "search": ["f.txt"], "mode": mode}])[0]
                if "snapshot" not in step:
                    okseq = False
                    break
                cur = {n: bytes.fromhex(v) for n, v in step["snapshot"].items()}
            ev += 1
            got = {n: bytes.fromhex(v) for n, v in whole["snapshot"].items()}
            if okseq and got != cur:
                ctx.violation("a program of several commands leaves other files than its commands run one after the other (mode %s)" % mode,
                              {"source": " ".join(cmds), "mode": mode, "file": content[:200], "program": {n: v.decode("latin-1")[:120] for n, v in got.items()},
                               "one_after_the_other": {n: v.decode("latin-1")[:120] for n, v in cur.items()}})
            elif okseq:
                nt.add((" ".join(cmds), mode, content[:50]))
    ctx.coverage["evaluations"] = ev
    ctx.coverage["distinct_nontrivial"] = len(nt)
    ctx.coverage["rule"] = ("find/replace commands x file sets (1..3 files; empty, short, long contents) x {NOTHING, NEW, OVERWRITE} x stale .vored present or not, on real "
                            "scratch directories: the whole directory snapshot after RunFiles must equal the snapshot before with exactly the allowed file set to the Python splice of "
                            "the implementation's own matches; the model's splice is compared too; non-trivial = distinct (program, mode, content) with a match")
    ctx.sample({"source": meta[0][0], "mode": meta[0][2], "files": meta[0][3]})


def replay(ctx, obj):
    print(obj)
