"""C03: every reported match is a faithful, ordered, located slice of the input."""
from props.core import *

ASSUMPTIONS = ["column claim checked on ASCII texts (CONSUME counts runes; the model counts bytes)",
               "the closed forms are recomputed in Python from the text alone, independently of model and implementation"]


def ml_text(rng):
    n = rng.choice([0, 1, 3, 5, 8, 12, 16])
    pool = "abc" * 3 + "\n\n\n" + " 1A" + "\r"
    s = "".join(rng.choice(pool) for _ in range(n))
    if rng.random() < 0.2:
        s = "\n" + s
    if rng.random() < 0.2:
        s = s + "\n"
    if rng.random() < 0.15:
        s = s.replace("\n", "\r\n", 1)
    return s


def line_col(text, off):
    before = text[:off]
    line = 1 + before.count("\n")
    col = 1 + (len(before) - (before.rfind("\n") + 1))
    return line, col


def strings_of(v):
    if isinstance(v, str):
        return [v]
    out = []
    for kv in v:
        out += strings_of(kv[1])
    return out


def check_matches(ctx, src, text, cmd_matches, window_all):
    """the property itself, on the implementation's result of one command"""
    prev_end = 0
    prev_num = None
    tb = text.encode("latin-1")
    for m in cmd_matches:
        num, s, e, ls, le, cs, ce = (int(x) for x in m[1:8])
        val = bytes.fromhex(m[8][1:])
        bad = None
        if not (0 <= s < e <= len(tb)):
            bad = "offsets out of order or range"
        elif val != tb[s:e]:
            bad = "Value differs from text[Start:End]"
        elif s < prev_end:
            bad = "matches overlap or are out of order"
        elif prev_num is not None and num != prev_num + 1:
            bad = "MatchNumbers not consecutive"
        elif ((ls, cs) != line_col(text, s) or (le, ce) != line_col(text, e)) if tb.isascii() else (ls != line_col(text, s)[0] or le != line_col(text, e)[0]):      # columns count characters: checked on ASCII texts
            bad = "line/column are not the closed forms"
        else:
            for sv in strings_of(m[10]):
                if bytes.fromhex(sv[1:]) not in val:
                    bad = "a string variable is not a substring of the match value"
        if bad:
            ctx.violation(bad, {"source": src, "text": text, "match": model.to_sexp(m)})
            return False
        prev_end, prev_num = e, num
    return True


def run(ctx):
    quick = ctx.quick()
    rng = ctx.rng
    cases = [{"src": c["src"], "texts": c["texts"]} for c in load_corpus()]
    regexes = ["@/a+b?/", "@/(a|b)c*/", "@/[a-c]{2,3}/", "@/^a.*$/", "@/(a)(b)?\\1/", "@/\\w+\\b/", "@/\\ba\\B./", "@/\\W\\w/", "@/\\S+\\s?/"]
    for i in range(500 if quick else 10000):
        g = genprog.ProgGen(rng)
        src = g.program()
        if rng.random() < 0.1:
            src += "\nfind all " + rng.choice(regexes)
        cases.append({"src": src, "texts": [ml_text(rng) for _ in range(6)]})
    # bindings made on a path that is tried LAST and fails (last alternative, taking path of a lazy optional or loop), then a match somewhere else in the
    # text that does not bind the name: a variable of a match comes from that match's own path and text
    from props import C02
    stale = []
    for a, b, c in (("'a'", "'b'", "'c'"), ("letter", "digit", "'-'"), ("'ab'", "'c'", "'b'"), ("any", "'b'", "'c'")):
        for form in ("find all %(c)s or ((%(a)s = x) %(b)s)", "find all (at most 1 (%(a)s = x) fewest) %(b)s", "find all (at least 0 (%(a)s = x) fewest) %(c)s",
                     "find all (%(c)s or ((%(a)s = x) %(b)s)) maybe x", "find all %(c)s or ({(%(a)s = x) %(b)s} = s)", "find all (%(c)s = y) or ((%(a)s = x) (%(b)s = y) 'q')"):
            stale.append({"src": form % dict(a=a, b=b, c=c), "texts": ["ax c", "ac b", "a c", "a\nc", "ab c", "a-b 1c", "abx c b", "ac", "abc", "a1 - c", "ab- b-c"]})
    cases += stale + C02.abandoned_cases(rng, 60 if quick else 1500)
    # a command that is one single literal (the shape a shortcut would single out), literals that overlap themselves, matches that touch
    for lit in ("aa", "aba", "a\na", "abab", "a", "\n\n"):
        for am in ("all", "skip 1", "skip 1 take 1", "last 2", "top 2"):
            cases.append({"src": "find %s '%s'" % (am, lit), "texts": ["aaaa", "aaaaaa", "ababa", "a\na\na", "abababab", "\n\n\n", "aaa\naaa"]})
    # offsets are offsets into the text AS GIVEN: a byte order mark, characters of several bytes and stray bytes in front of a match all count, byte by byte
    mbt = MB_TEXTS + [BOM + "abc\nabc", BOM, BOM + BOM + "ab", E2 + "\nabc " + E3 + " abc", "\xbb\xbfabc", "ab" + BOM + "ab\n" + BOM + "ab"]
    for p in ("find all 'abc'", "find all 'a' maybe 'b'", "find all any", "find all at least 1 (not ' ')", "find all line start any", "find all 'a' = x maybe ('b' = y)", "replace all 'ab' with '<' value '>'",
              "find all file start any", "find all file start 'a'", "find skip 1 any any", "find all @/ab?/"):
        cases.append({"src": p, "texts": mbt})
    gres, dis, stats = corr_core.run_core(cases, shards=12, spec=True)
    report_core_disagreements(ctx, cases, dis, in_scope=in_scope_core, known=known_core)
    ev = 0
    nt = set()
    for c, g in zip(cases, gres):
        per = g.get("percmd_list")
        if not per:
            continue
        for ti, t in enumerate(c["texts"]):
            if ti >= len(per):
                break
            for cm in per[ti]:
                ms = parse_matches(cm)
                ev += 1
                ok = check_matches(ctx, c["src"], t, ms, True)
                if ok and ms and "\n" in t:
                    nt.add((c["src"], t))
    # the same property for FILES: matches found through the 4096-byte sliding window of the file reader are slices of the file's content, with the
    # closed-form lines and columns - sizes around the window and half-window boundaries, matches in the head, across the boundaries and in the tail
    def content(n, seed):
        import random
        r2 = random.Random(seed)
        b = []
        while len(b) < n:
            b += list("filler text %d " % r2.randint(0, 999)) + (["\n"] if r2.random() < 0.3 else [])
        b = b[:n]
        for off in [10, 2040, 4090, n // 2, n - 1200, n - 905, n - 700, n - 300, n - 12]:
            if 0 <= off and off + 10 <= n:
                b[off:off + 10] = list("NEEDLE%04d" % (off % 10000))
        return "".join(b)
    fprogs = ["find all 'NEEDLE' at least 1 digit", "find all (at least 1 upper) = w (at least 1 digit) = d", "replace all 'NEEDLE' (digit = d) with d '!'", "find all 'E' digit digit"]
    sizes = [4096, 4097, 5000, 6143, 6144, 6145, 8192, 9001, 12289] if quick else list(range(4090, 4100)) + list(range(4990, 5010)) + list(range(6140, 6150)) + [8191, 8192, 8193, 9001, 10239, 10241, 12289, 16385, 20000]
    fcases, fmeta = [], []
    for n in sizes:
        c = content(n, n)
        for p in fprogs:
            fcases.append({"op": "files", "src_hex": vh.hexs(p), "files": [["big.txt", vh.hexs(c)]], "search": ["big.txt"], "mode": "NOTHING"})
            fmeta.append((p, c))
    fres = vh.run_cases(fcases, shards=8)
    fruns = 0
    for (p, c), r in zip(fmeta, fres):
        if "panic" in r or r.get("hang") or r.get("oom") or r.get("fatal"):
            ctx.violation("RunFiles panics or does not return on a %d-byte file" % len(c), {"source": p, "file_bytes": len(c), "outcome": str({k: v for k, v in r.items() if k in ("panic", "hang", "oom", "fatal")})[:300]})
            continue
        if "matches" not in r:
            continue
        ms = parse_matches(r["matches"])
        ev += 1
        fruns += 1
        if check_matches(ctx, p + "   (on a file of %d bytes)" % len(c), c, ms, True) and ms:
            nt.add((p, len(c)))
        # nothing missed either: the literal needle occurs where Python finds it
        if p == fprogs[0]:
            import re as pyre
            want = [(m.start(), m.end()) for m in pyre.finditer(r"NEEDLE[0-9]+", c)]
            got = [(int(m[2]), int(m[3])) for m in ms]
            if got != want:
                ctx.violation("matches found in a file differ from the occurrences in its content", {"source": p, "file_bytes": len(c), "found": got[:12], "occurrences": want[:12]})
    ctx.coverage["file_runs"] = fruns
    ctx.coverage["evaluations"] = ev
    ctx.coverage["distinct_nontrivial"] = len(nt)
    ctx.coverage["agreement"] = stats
    ctx.coverage["rule"] = ("generated programs (incl. named loops, replace commands, regex literals) x multi-line texts (\\n, \\r\\n, leading/trailing newlines); every "
                            "field of every match checked against closed forms recomputed from the text, and compared with the model; non-trivial = distinct "
                            "(program, text with a newline) with at least one match")
    ctx.sample({"source": cases[-1]["src"], "text": cases[-1]["texts"][0]})


def replay(ctx, obj):
    replay_core(ctx, obj)
