"""C15: whitespace, comments and keyword case never change a program's meaning."""
from props.core import *
import front

ASSUMPTIONS = ["a separator is inserted as the theorem's valid streams allow: a line comment carries its end of line; a comment is not glued directly after a `-` token (`---` is a comment by "
               "maximal munch, like `ab` is one word): there a blank precedes it",
               "meaning = accept/reject, the printed syntax tree (s-expression of the exported AST) and the Run results on sample texts; every variant is also compared with the model (CORR-LEX/PARSE)"]

SEPS = [("space", " "), ("newline", "\n"), ("tab run", "\t\t \t"), ("line comment", "-- note\n"), ("line comment after blank", "  -- find all 'x'\n  "),
        ("block comment", "--( note )--"), ("block comment with blanks", " --( set x to ) )-- \n"), ("block comment multi-line", "--(\n a 'b' \" \n)--"), ("empty line comment", "--\n"),
        ("block comment ending in )-", "--( see (a)-)--"), ("block comment full of ) and -", "--()) -) )- - -- ))-))--"), ("line comment of dashes", "------\n"), ("empty block comment", "--()--"),
        # a comment may hold any bytes: characters of several bytes, the replacement character, bytes that are no character at all
        ("line comment with accents", "-- caf\xc3\xa9 \xe2\x82\xac\n"), ("block comment with stray bytes", "--( \xff\xfe \xc3 )--"), ("line comment with U+FFFD", "-- \xef\xbf\xbd x\n"),
        ("block comment with U+FFFD", "--(\xef\xbf\xbd)--")]

TEXTS = ["", "abc abc\nab 12 Ab\n", "aab ccb a1 'q'\n\tx\r\nend", "The fox 42; a_b. 3+4=7"]


def join(parts):
    return "".join(parts)


def variants(rng, src, limit=None):
    toks = front.tokenize(src)
    if join(s for _, s in toks) != src or any(k == "other" for k, _ in toks):
        return None
    sig = [i for i, (k, _) in enumerate(toks) if k not in ("ws", "block", "line")]
    if not sig:
        return None
    sp = [s for _, s in toks]
    out = []
    # insertion at every gap (before the first token, between tokens, after the last)
    gaps = [sig[0]] + [i for i in sig[1:]] + [len(sp)]
    for gi, pos in enumerate(gaps):
        prev = toks[sig[gi - 1]] if gi > 0 else None
        for name, sep in SEPS:
            s = sep
            if prev is not None and prev[1] == "-" and s.startswith("-"):
                s = " " + s
            # keep words apart: the inserted separator is itself a separator, so nothing else is needed
            out.append(("insert %s" % name, join(sp[:pos]) + s + join(sp[pos:])))
    # replacement of every existing separator run by each separator
    i = 0
    while i < len(toks):
        if toks[i][0] in ("ws", "block", "line"):
            j = i
            while j < len(toks) and toks[j][0] in ("ws", "block", "line"):
                j += 1
            if 0 < i and j < len(toks):
                for name, sep in SEPS:
                    s = sep
                    if toks[i - 1][1] == "-" and s.startswith("-"):
                        s = " " + s
                    out.append(("replace by %s" % name, join(sp[:i]) + s + join(sp[j:])))
            i = j
        else:
            i += 1
    # no separator at all where the neighbours do not glue
    compact = []
    prevk, prevs = None, ""
    for k, s in toks:
        if k in ("ws", "block", "line"):
            continue
        glue = False
        if prevk is not None:
            a, b = prevs[-1], s[0]
            if (a.isalnum() and b.isalnum()) or (prevs in ("=", "<", ">", "!", ":") and b == "=") or (prevs == "-" and b == "-") or (prevk == "num" and b.isdigit()):
                glue = True
            if prevk == "word" and k in ("word", "num"):
                glue = True
        compact.append((" " if glue else "") + s)
        prevk, prevs = k, s
    out.append(("compact", join(compact)))
    # keyword case
    def recase(f):
        return join(f(s) if k == "word" and s.lower() in front.KEYWORDS else s for k, s in toks)
    out.append(("upper-case keywords", recase(str.upper)))
    out.append(("capitalised keywords", recase(str.capitalize)))
    out.append(("inverted-capitalisation keywords", recase(lambda w: w[:1].lower() + w[1:].upper())))
    out.append(("mixed-case keywords", recase(lambda s: "".join(c.upper() if rng.random() < 0.5 else c.lower() for c in s))))
    if limit is not None and len(out) > limit:
        keep = [o for o in out if o[0] in ("compact", "upper-case keywords", "capitalised keywords", "mixed-case keywords", "inverted-capitalisation keywords")]
        rest = [o for o in out if o not in keep]
        out = keep + rng.sample(rest, max(0, limit - len(keep)))
    return out


def outcome(r):
    if "panic" in r or r.get("hang") or r.get("oom"):
        return ("fail", str({k: v for k, v in r.items() if k != "stack"})[:200])
    if "ast" in r and "matches_list" in r:
        return ("ok", r["ast"], tuple(r["matches_list"]))
    if "ast" in r:
        return ("generr", r.get("err", "").split("\n")[0])
    return ("reject", r.get("errclass"))


def run(ctx):
    quick = ctx.quick()
    rng = ctx.rng
    base = [s for s, ok in front.corpus() if ok is not False and all(ord(c) < 128 for c in s)]
    base += front.generated_programs(rng, 40 if quick else 150)
    if quick:
        base = rng.sample(base, 45)
    cases, meta = [], []
    skipped = 0
    # a program whose Run is expensive is expensive in every layout: its variants are compared on Compile (accept/reject, tree) only,
    # otherwise one pathological pattern costs a watchdog period per variant
    pre = vh.run_cases([{"op": "e2e", "src_hex": vh.hexs(src), "texts_hex": [vh.hexs(t) for t in TEXTS]} for src in base], timeout_ms=2000, shards=12)
    expensive = {src for src, r in zip(base, pre) if outcome(r)[0] == "fail"}
    ctx.coverage["programs_compared_on_compile_only"] = len(expensive)
    for src in base:
        vs = variants(rng, src, limit=60 if quick else None)
        if vs is None:
            skipped += 1
            continue
        texts = [] if src in expensive else [vh.hexs(t) for t in TEXTS]
        cases.append({"op": "e2e", "src_hex": vh.hexs(src), "texts_hex": texts})
        meta.append((src, "original", src))
        for k, (name, v) in enumerate(vs):
            # the pass through libvore.Compile / (*Vore).Run on the original and on every eighth variant (it doubles the cost of a case)
            cases.append({"op": "e2e", "src_hex": vh.hexs(v), "texts_hex": texts, "noapi": quick is False and k % 8 != 0})
            meta.append((src, name, v))
    res = vh.run_cases(cases, shards=12)
    orig = {}
    ev, nt = 0, 0
    kinds = {}
    for (src, name, v), r in zip(meta, res):
        o = outcome(r)
        if r.get("api_diff"):
            ctx.violation("libvore.Compile / Run disagree with the parse + generate + run pipeline on the same source", {"source": v, "difference": str(r["api_diff"])[:500]})
        if name == "original":
            orig[src] = o
            continue
        ev += 1
        kinds[name] = kinds.get(name, 0) + 1
        o0 = orig[src]
        if o0[0] == "fail":
            continue
        rep = {"original": src, "variant": v, "kind": name}
        if o[0] == "fail":
            # time/memory limit: decide on a fresh pair with generous limits (an expensive program is expensive in every layout)
            pair = vh.run_cases([{"op": "e2e", "src_hex": vh.hexs(x), "texts_hex": [vh.hexs(t) for t in TEXTS]} for x in (src, v)], timeout_ms=60000, maxmem=8192)
            o0b, ob = outcome(pair[0]), outcome(pair[1])
            if o0b[0] == "fail" or ob == o0b:
                ctx.coverage["expensive_in_every_layout"] = ctx.coverage.get("expensive_in_every_layout", 0) + 1
            else:
                ctx.violation("Compile/Run of a re-laid-out program panics or hangs while the original returns", dict(rep, outcome=ob[1] if ob[0] == "fail" else str(ob)[:200]))
        elif o[0] != o0[0]:
            ctx.violation("a re-laid-out program (%s) is %s while the original is %s" % (name, "rejected" if o[0] == "reject" else o[0], "accepted" if o0[0] == "ok" else o0[0]), rep)
        elif o[0] == "ok" and o[1] != o0[1]:
            ctx.violation("a re-laid-out program (%s) parses to a different syntax tree" % name, dict(rep, tree=o[1][:300], original_tree=o0[1][:300]))
        elif o[0] == "ok" and o[2] != o0[2]:
            ctx.violation("a re-laid-out program (%s) gives different results" % name, rep)
        else:
            if o[0] == "ok":
                nt += 1
    # model: tokens and trees of all variants
    srcs = [v for (_, name, v) in meta]
    B = 4000
    for i in range(0, len(srcs), B):
        front.compare_front(ctx, srcs[i:i + B], ["layout variant"] * len(srcs[i:i + B]), impl_prop=False, file=(i == 0))     # CompileFile on the first batch only: the variants were compiled once already
    ctx.coverage["evaluations"] = ev
    ctx.coverage["distinct_nontrivial"] = nt
    ctx.coverage["programs"] = len(orig)
    ctx.coverage["programs_skipped_by_tokenizer"] = skipped
    ctx.coverage["variant_kinds"] = kinds
    ctx.coverage["rule"] = ("valid programs (corpus + generated) x every gap between tokens (and before the first / after the last) x {space, newline, tab run, line comment, line comment after blank, "
                            "block comment, block comment with blanks, multi-line block comment, empty line comment}, inserted and as replacement of the existing separator; all separators removed where "
                            "tokens do not glue; keywords in upper, capitalised and random mixed case: accept/reject, printed tree and Run results must equal the original's; non-trivial = accepted variants")
    ctx.sample({"original": meta[1][0][:80], "variant": meta[1][2][:100], "kind": meta[1][1]})


def replay(ctx, obj):
    print(obj)
