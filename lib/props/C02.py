"""C02: captured variables are exactly the bindings of the successful path."""
from props.core import *
from props.common import E2, E3, E4, MB_TEXTS

ASSUMPTIONS = ["variables are compared as sorted maps (nested for named loops); named-loop nests are model+correspondence only (outside the theorem)"]


def abandoned_cases(rng, n):
    """templates in which an alternative, optional group, loop iteration or call binds and then fails"""
    out = []
    A = ["'a'", "'ab'", "any", "letter", "in 'a', 'b'"]
    for _ in range(n):
        a = rng.choice(A)
        b = rng.choice(["'b'", "'c'", "digit"])
        c = rng.choice(["'c'", "'d'", "'a'"])
        x = rng.choice(["x", "y"])
        forms = [
            "find all (%s = %s %s) or (%s %s)" % (a, x, b, a, c),
            "find all maybe (%s = %s %s) %s %s" % (a, x, b, a, c),
            "find all at least 0 (%s = %s %s) %s %s" % (a, x, b, a, c),
            "find all 'z' = %s ((%s = %s %s) or (%s %s))" % (x, a, x, b, a, c),
            "find all {%s = %s (maybe s) %s} = s or (%s %s)" % (a, x, b, a, c),
            "find all (%s = %s %s) or (%s = %s %s) %s" % (a, x, b, a, "w", c, x),
            "find all at least 1 ((%s = %s %s) or %s) fewest %s" % (a, x, b, a, c),
            "set p to pattern %s = %s %s\nfind all p or (%s %s)" % (a, x, b, a, c),
        ]
        # named loops: a binding made inside an unnamed loop (or group) nested in a named loop, behind a choice point, on a path that is then abandoned
        lo = rng.choice(["at least 0", "at most 2", "between 0 and 2", "maybe", "at least 1"])
        nforms = [
            "find all at least 1 ( %s ( ((%s = %s) '=') or (%s '-') ) ';' ) named grp" % (lo, a, x, a),
            "find all at least 1 ( %s ( maybe (any = %s) digit ) ';' ) named num" % (lo, x),
            "find all at least 1 ( ( ((%s = %s) %s) or (%s %s) ) ';' ) named g" % (a, x, b, a, c),
            "find all at least 1 ( %s ( (at least 1 (%s = %s) named inner %s) or %s ) ';' ) named outer" % (lo, a, x, b, a),
            "find all at least 1 ( (%s = %s) %s (maybe (%s = %s %s)) ',' ) named row" % (a, x, lo, a, "w", b),
        ]
        if rng.random() < 0.3:
            forms = nforms
        src = rng.choice(forms)
        texts = [rng.choice(["ac", "abac", "aac", "zac", "a1ac", "abab", "aad", "abc", "aaa", "ab1ac a", "a-;", "b=a-;", "a=;a-;", "+1;2;", "a=b-;c=;", "ab,a,", "a=;"]) for _ in range(4)]
        texts += [genprog.gen_text(rng, "abcd", 8) for _ in range(3)]
        out.append({"src": src, "texts": texts})
    return out


def backref_cases(quick):
    """a back-reference matches exactly the bound text: same bytes, same case, same length - on texts that differ from the binding in case, in one byte, in length"""
    progs = ["find all (letter = x) x", "find all (at least 1 letter = x) '-' x", "find all (any any = x) x", "find all ((letter = x) x 'b') or (letter letter)",
             "find all (at least 1 (in 'a', 'A', 'b') = x) '-' x '.'", "find all @/([a-zA-Z]+)-\\1/", "find all @/(?<w>[aAbB])\\k<w>/", "find all caseless 'a' = x x",
             "replace all (letter = x) x with x", "find all (maybe letter = x) '-' x '-'"]
    texts = ["aA", "Aa", "aa", "AA", "ab-ab", "ab-AB", "ab-aB", "aB-aB", "AB-ab.", "ab-ab.", "ab-abb.", "abb-ab.", "aAb", "aab", "aAaa", "--", "a-a-", "a-A-", "a-b-", "ab-ab ab-Ab"]
    if not quick:
        import itertools
        texts += ["".join(t) for n in range(1, 5) for t in itertools.product("aAb-", repeat=n)]
    cases = [{"src": p, "texts": texts} for p in progs]
    # a capture that encloses a recursive call of its own subroutine: the same binding is open at several depths at once
    rec = ["find all { ('a' maybe s 'b') = x } = s", "find all { '(' (maybe s) = x ')' } = s", "find all { ('a' maybe s 'b') = x } = s '-' x",
           "find all { 'a' ((maybe s) = x) 'b' x } = s", "set s to pattern ('(' maybe s ')') = x\nfind all s", "find all { ('a' = y) (maybe s = x) 'b' } = s y"]
    rtexts = ["ab", "aabb", "aaabbb", "aabb-aabb", "aabb-abb", "(())", "((()))", "()", "aabbb", "aab", "aaabbbab", "ab-ab"]
    cases += [{"src": p, "texts": rtexts} for p in rec]
    # a capture taken after a character of several bytes: the bound text is the BYTES between where the capture began and where it ended
    mb = ["find all '%s' (('a' = x 'b') or ('a' = y 'c'))" % E2, "find all '%s' at least 1 (digit = d)" % E3, "find all '%s' ((at least 1 any) = w) '-' w" % E2,
          "find all ('%s' = x) maybe ('a' = y) maybe x" % E2, "find all any ('a' = x) maybe (any = y)", "find all (any any = x) maybe x", "find all '%s' at least 1 (('a' = x) maybe ('b' = y)) named r" % E2,
          "find all {'%s' ('a' = x)} = s" % E2, "replace all '%s' ('a' = x) with '<' x '>'" % E2, "find all (at least 1 (not 'a') = x) 'a'"]
    cases += [{"src": p, "texts": MB_TEXTS} for p in mb]
    return cases


def run(ctx):
    quick = ctx.quick()
    extra = abandoned_cases(ctx.rng, 300 if quick else 4000) + backref_cases(quick)
    cases, gres, dis, stats = run_generated(ctx, 400 if quick else 8000, extra=extra,
                                            gen_kwargs=dict(allow_whole=False))
    # measured: template cases (binding on an abandoned path by construction) that produced a match
    nb = 0
    for c, g in zip(cases, gres):
        if c in extra:
            nb += sum(1 for m in (g.get("matches_list") or []) if m != "()")
    ctx.coverage["abandoned_binding_template_runs_with_match"] = nb
    ctx.coverage["rule"] = ("templates that bind inside an alternative / optional group / loop iteration / call / stored pattern and then fail, on texts that "
                            "force the failure, back-reference templates on texts that differ from the binding in case, one byte or length, plus grammar-generated programs with captures; variables compared as sorted maps at all three layers and against "
                            "the specification's bindings; non-trivial = distinct (program,text) with a match")


def replay(ctx, obj):
    replay_core(ctx, obj)
