"""C14: a regex literal finds what that regular expression finds."""
import re as pyre
from props.core import *
import front, corr_core

ASSUMPTIONS = ["oracle: Python's re (a conventional backtracking engine with back-references), MULTILINE|ASCII, applied position by position exactly like find all: anchored match at i, a non-empty "
               "match is reported and the scan resumes at its end, otherwise i+1",
               "subset as the property lists it; alternation only as the whole content of a group or of the whole regex, between single atoms or groups (vore's `|` binds tighter than "
               "concatenation); repeated bodies cannot match the empty string; texts are short ASCII without \\r \\f \\v",
               "group bindings: a group Python reports as unset must be absent from the match's variables; a set group must be bound to the same text"]

ALPHA = "abc"


class ReGen:
    """generates a regex of the subset in vore's and Python's notation, with the group table"""

    def __init__(self, rng, depth=3):
        self.r = rng
        self.depth = depth
        self.unnamed = 0      # vore numbering: unnamed capturing groups only
        self.total = 0        # python numbering: all capturing groups
        self.groups = []      # (vore variable name, python group index)
        self.closed = []      # groups usable in a back-reference (closed, at an enclosing sequence level)
        self.names = 0

    def char(self):
        return self.r.choice(ALPHA + "1 ")

    def cls(self):
        k = self.r.random()
        if k < 0.3:
            return "[%s]" % "".join(self.r.sample("abc12", self.r.randint(1, 3)))
        if k < 0.5:
            return "[^%s]" % "".join(self.r.sample("abc1", self.r.randint(1, 2)))
        if k < 0.7:
            return self.r.choice(["[a-c]", "[a-b]", "[0-9]", "[b-cx]", "[^a-b]", "[a-b1-2]"])
        return self.r.choice(["\\d", "\\D", "\\s", "\\S", "."])

    def quant(self):
        k = self.r.random()
        if k < 0.45:
            return ""
        q = self.r.choice(["*", "+", "?", "{2}", "{1,}", "{2,}", "{1,2}", "{0,2}", "{1,3}", "{3}", "{1}", "{1,1}", "{0}", "{0,1}", "{0,}", "{2,2}"])
        if self.r.random() < 0.3:
            q += "?"
        return q

    def atom(self, d):
        """a non-nullable single atom (without quantifier): returns (vore, py)"""
        k = self.r.random()
        if d <= 0 or k < 0.4:
            c = self.char()
            return (c, pyre.escape(c), False)
        if k < 0.6:
            c = self.cls()
            return (c, c, False)
        return self.group(d - 1)

    def group(self, d):
        kind = self.r.random()
        saved_closed = list(self.closed)
        if kind < 0.3:
            v, p, nl = self.body(d)
            self.closed = saved_closed
            return ("(?:%s)" % v, "(?:%s)" % p, nl)
        if kind < 0.5:
            self.names += 1
            nm = "g%d" % self.names
            self.total += 1
            idx = self.total
            v, p, nl = self.body(d)
            self.closed = saved_closed
            self.groups.append((nm, idx))
            self.closed.append((nm, idx, True))
            return ("(?<%s>%s)" % (nm, v), "(?P<%s>%s)" % (nm, p), nl)
        self.unnamed += 1
        self.total += 1
        num, idx = self.unnamed, self.total
        v, p, nl = self.body(d)
        self.closed = saved_closed
        self.groups.append(("_%d" % num, idx))
        if num <= 9:
            self.closed.append((str(num), idx, False))
        return ("(%s)" % v, "(%s)" % p, nl)

    def body(self, d):
        """content of a group or of the whole regex: an alternation of single atoms/groups, or a sequence"""
        if self.r.random() < 0.35:
            alts = [self.qatom(d) for _ in range(self.r.randint(2, 3))]
            return ("|".join(a[0] for a in alts), "|".join(a[1] for a in alts), any(a[2] for a in alts))
        return self.seq(d)

    def qatom(self, d):
        saved_closed = list(self.closed)
        v, p, nl = self.atom(d)
        if nl:
            return (v, p, True)           # a body that can match the empty string is never repeated
        q = self.quant()
        if q.startswith("{0}"):
            self.closed = saved_closed    # a group repeated zero times never takes part: engines disagree on a reference to it (vore: unknown name), so none is generated
        return (v + q, p + q, q.startswith("{0") or q[:1] in ("*", "?"))

    def seq(self, d):
        n = self.r.randint(1, 3)
        parts = []
        for i in range(n):
            k = self.r.random()
            if k < 0.08 and i == 0:
                parts.append(("^", "^", True))
            elif k < 0.14 and i == n - 1 and n > 1:
                parts.append(("$", "$", True))
            elif k < 0.26 and self.closed:
                nm, idx, named = self.r.choice(self.closed)
                parts.append(("\\k<%s>" % nm, "(?P=%s)" % nm, True) if named else ("(?:\\%s)" % nm, "(?:\\%d)" % idx, True))    # isolated: a following digit must not extend the number
            else:
                parts.append(self.qatom(d))
        return ("".join(a[0] for a in parts), "".join(a[1] for a in parts), all(a[2] for a in parts))

    def regex(self):
        v, p, _ = self.body(self.depth)
        return v, p, list(self.groups)


def gen_text(rng):
    n = rng.choice([0, 1, 2, 3, 4, 5, 6, 8, 10])
    # class boundaries: first and last member, and the characters just outside ([0-9]: / 0 9 :   [a-c]: ` a c d   \s: space, tab)
    pool = "aaabbbccc11 \n2x" + ("09/:`d\tZ_" if rng.random() < 0.4 else "")
    s = []
    while len(s) < n:
        if s and rng.random() < 0.3:
            k = rng.randint(1, min(3, len(s)))
            st = rng.randint(0, len(s) - k)
            s.extend(s[st:st + k])
        else:
            s.append(rng.choice(pool))
    return "".join(s[:n])


def oracle(pat, groups, text):
    out = []
    i = 0
    while i <= len(text):
        m = pat.match(text, i)
        if m and m.end() > i:
            out.append((i, m.end(), {nm: m.group(idx) for nm, idx in groups if m.group(idx) is not None}))
            i = m.end()
        else:
            i += 1
    return out


def vore_matches(msx):
    out = []
    for m in parse_matches(msx):
        vs = {}
        for k, v in m[10]:
            if isinstance(v, str):
                vs[bytes.fromhex(k[1:]).decode("latin-1")] = bytes.fromhex(v[1:]).decode("latin-1")
        out.append((int(m[2]), int(m[3]), vs))
    return out


FIXED = [("a|b", "a|b", []), ("(a)+", "(a)+", [("_1", 1)]), ("(a|b){2}c", "(a|b){2}c", [("_1", 1)]), ("(?<x>a+)b\\k<x>", "(?P<x>a+)b(?P=x)", [("x", 1)]),
         ("^a.c$", "^a.c$", []), ("[^a]\\d*?1", "[^a]\\d*?1", []), ("(?:a|(b))+\\1", "(?:a|(b))+(?:\\1)", [("_1", 1)]), ("(a)(?<n>b)(c)\\2", "(a)(?P<n>b)(c)(?:\\3)", [("_1", 1), ("n", 2), ("_2", 3)]),
         ("a{2,3}?a", "a{2,3}?a", []), ("(?:(?:a|b)+|c)x", "(?:(?:a|b)+|c)x", []), ("\\s+\\S", "\\s+\\S", []), ("a{0,2}b{1,}", "a{0,2}b{1,}", []),
         # a bounded group with a choice point inside that has to give characters back after a longer attempt failed
         ("(a+)?a", "(a+)?a", [("_1", 1)]), ("(.{1,})?b{1,3}", "(.{1,})?b{1,3}", [("_1", 1)]), ("(?:(?:ab)|a){0,2}b", "(?:(?:ab)|a){0,2}b", []), ("(b+)?b{1,2}", "(b+)?b{1,2}", [("_1", 1)]),
         ("(?:a+b?){1,2}a", "(?:a+b?){1,2}a", []), ("((?:a)|(?:ab)){1,2}c", "((?:a)|(?:ab)){1,2}c", [("_1", 1)]),
         # a back-reference to a capture of several characters tried right where a one-character read has just been tried
         ("(ab)c?\\1", "(ab)c?(?:\\1)", [("_1", 1)]), ("(a+)b?\\1", "(a+)b?(?:\\1)", [("_1", 1)]), ("(ab)(?:x|\\1)", "(ab)(?:x|(?:\\1))", [("_1", 1)]),
         ("(?<w>ab)-?\\k<w>", "(?P<w>ab)-?(?P=w)", [("w", 1)]), ("(ab)\\1?.", "(ab)(?:\\1)?.", [("_1", 1)]), ("(abc)[a-c]?\\1", "(abc)[a-c]?(?:\\1)", [("_1", 1)])]
FIXED_TEXTS = ["aa", "aab acb", "abab", "abbaba", "aaaa", "abab ab-ab", "abcd", "abcabc abcaabc", "ababab", "aaba", "ab-ab abab", "abc", "aabac"]


def run(ctx):
    quick = ctx.quick()
    rng = ctx.rng
    items = list(FIXED)
    for _ in range(400 if quick else 40000):
        g = ReGen(rng, depth=rng.choice([1, 2, 2, 3]))
        items.append(g.regex())
    cases, meta = [], []
    for v, p, groups in items:
        if "/" in v:
            continue
        try:
            pat = pyre.compile(p, pyre.MULTILINE | pyre.ASCII)
        except Exception as e:
            ctx.notes.append("oracle rejects %r: %s" % (p, e))
            continue
        texts = [gen_text(rng) for _ in range(8 if quick else 12)] + ["", "abcabc", "aab1 ab\nba"]
        if (v, p, groups) in FIXED:
            texts = texts + FIXED_TEXTS
        cases.append({"src": "find all @/%s/" % v, "texts": texts})
        meta.append((v, p, groups, pat, texts))
    gres, dis, stats = corr_core.run_core(cases, shards=12, spec=True)
    # implementation vs the conventional engine
    ev, nt = 0, 0
    feats = {}
    for (v, p, groups, pat, texts), g in zip(meta, gres):
        rep = {"regex": v, "python": p}
        if "panic" in g:
            ctx.violation("find all @/re/ panics", dict(rep, outcome=str({k: x for k, x in g.items() if k != "stack"})[:300]))
            continue
        if g.get("hang") or g.get("oom"):
            # exceeded the watchdog: exponential backtracking is not this property's business; whether the implementation returns where the model does is decided
            # by the core comparison below (IMPL-HANG when the model finishes within its step bound, "both expensive" otherwise)
            feats["(watchdog)"] = feats.get("(watchdog)", 0) + 1
            continue
        if "matches_list" not in g:
            ctx.violation("a regex literal of the supported subset is rejected: %s" % str(g.get("err", "?")).split("\n")[0], rep)
            continue
        for f in ("|", "(?:", "(?<", "\\k<", "*?", "+?", "??", "}?", "{", "^", "$", "[^", "\\d", "\\s", "."):
            if f in v:
                feats[f] = feats.get(f, 0) + 1
        for t, msx in zip(texts, g["matches_list"]):
            ev += 1
            got = vore_matches(msx)
            want = oracle(pat, groups, t)
            if [(a, b) for a, b, _ in got] != [(a, b) for a, b, _ in want]:
                ctx.violation("a regex literal reports other match spans than the regular expression", dict(rep, text=t, vore=[(a, b) for a, b, _ in got], regex_engine=[(a, b) for a, b, _ in want]))
                break
            bad = [(x, y) for x, y in zip(got, want) if {k: s for k, s in x[2].items() if k in dict(groups)} != y[2]]
            if bad:
                ctx.violation("a regex literal binds a group to other text than the regular expression", dict(rep, text=t, vore=bad[0][0], regex_engine=bad[0][1]))
                break
            if want:
                nt += 1
    # model VM / specification vs implementation on the same programs; model regex parser vs the implementation's tree
    report_core_disagreements(ctx, cases, dis)
    # \s and \S on the other control and blank characters (vertical tab, form feed, the separators 0x1c..0x1f, NEL and no-break space as bytes): vore's whitespace is
    # space, tab, newline, carriage return and nothing else - the reference here is the proved model (conventional engines differ among themselves on these)
    ws_cases = [{"src": "find all @/%s/" % v, "texts": ["a\x0bb", "a\x0cb c", "\x0b\x0b", "a\x1c\x1d\x1e\x1fb", "a\x85b\xa0c", "a \x0b\tb", "\x0b", "ab\x0b\ncd", "a\x00b"]}
                for v in ("\\s", "\\S+", "\\s+", "(\\S+)\\s(\\S+)", "[^\\s]+", "[\\s]", "a\\s*b", "\\S\\s?\\S", "[\\sa]+", ".\\s.")]
    wres, wdis, wstats = corr_core.run_core(ws_cases, shards=4, spec=True)
    report_core_disagreements(ctx, ws_cases, wdis, in_scope=lambda c, d: True, known=known_core)
    ev += wstats.get("e2e_agree", 0)
    # what a regex literal finds does not depend on what was compiled before it: in ONE process, a literal that is rejected half-way (groups already opened and numbered)
    # and then literals whose groups and numbered back-references must be numbered from 1 again
    bad = ["(x(y)z", "(a)(b", "((a)|(b)", "(a)(?=b)", "(a){2", "(a)[b", "((((a", "(a)\\"]
    good = ["c(\\d+)", "(a|b)\\1", "(a)(b)\\2", "(a)(b)?\\1", "((a)b)\\2\\1", "(?<n>a)(b)\\1", "(?:a)(b)\\1"]
    hist_cases = []
    for k, g_ in enumerate(good):
        for b_ in (bad[k % len(bad)], bad[(k + 3) % len(bad)]):
            hist_cases.append({"src": "find all @/%s/" % b_, "texts": ["a"]})
            hist_cases.append({"src": "find all @/%s/" % g_, "texts": ["c12 c3", "aabbab", "aba abb", "abab", "aa", "abaab", "abb"]})
    hres, hdis, hstats = corr_core.run_core(hist_cases, shards=1, spec=True)
    report_core_disagreements(ctx, hist_cases, hdis, in_scope=lambda c, d: True, known=known_core)
    for c, g in zip(hist_cases[1::2], hres[1::2]):
        if "matches_list" not in g and "panic" not in g:
            ctx.violation("a regex literal of the supported subset is rejected when compiled after a rejected one: %s" % str(g.get("err", "?")).split("\n")[0], {"regex_source": c["src"]})
    ev += hstats.get("e2e_agree", 0)
    srcs = [c["src"] for c in cases]
    for i in range(0, len(srcs), 4000):
        front.compare_front(ctx, srcs[i:i + 4000], ["regex literal"] * len(srcs[i:i + 4000]), impl_prop=False)
    ctx.coverage["evaluations"] = ev
    ctx.coverage["distinct_nontrivial"] = nt
    ctx.coverage["regexes"] = len(meta)
    ctx.coverage["features"] = feats
    ctx.coverage["core_stats"] = {k: stats[k] for k in ("compiled", "gen_agree", "vm_agree", "e2e_agree") if k in stats}
    ctx.coverage["rule"] = ("generated regexes of the subset (literals, ., classes with ranges and negation, \\d \\D \\s \\S, plain / non-capturing / named groups nested to depth 3, * + ? {m} {m,} {m,n} and "
                            "lazy forms on atoms and groups, alternations inside groups and at top level, ^ $, numbered and named back-references) x short ASCII texts: spans in order and group bindings of "
                            "`find all @/re/` vs Python re applied position by position; the same programs through the model VM and the extracted specification; non-trivial = (regex,text) with a match")
    ctx.sample({"regex": meta[0][0], "text": meta[0][4][0]})
    ctx.sample({"regex": meta[-1][0], "text": meta[-1][4][0]})


def replay(ctx, obj):
    print(obj)
