"""C05: a replacement is the concatenation of its `with` items for that match."""
from props.core import *

ASSUMPTIONS = ["items that are transforms are evaluated by the model (process language, C11); all other items are recomputed in Python from the implementation's own match fields",
               "a replace whose items all name nothing has no replacement value: None and '' are identified"]

BUILTINS = ["value", "matchNumber", "startOffset", "endOffset", "totalMatches", "lineNumber", "columnNumber", "filename"]


def gen_case(rng):
    g = genprog.ProgGen(rng, allow_named=False, allow_global=False)
    g.features = set(); g.globals = []; g.transforms = []
    pre = []
    ntr = rng.choice([0, 0, 1, 2])
    for _ in range(ntr):
        pre.append(g.transform())
    g.reset_cmd()
    body = g.exprs(0)
    if rng.random() < 0.6 and not g.captures:
        body = "(%s) = x1 %s" % (g.solid(), body)
        g.captures.append("x1")
    items = []
    for _ in range(rng.randint(0, 5)):
        k = rng.random()
        if k < 0.3:
            w = g.word(0, 2)
            items.append(("str", w))
        elif k < 0.5 and g.captures:
            items.append(("cap", rng.choice(g.captures)))
        elif k < 0.7:
            items.append(("builtin", rng.choice(BUILTINS)))
        elif k < 0.85 and g.transforms:
            items.append(("transform", rng.choice(g.transforms)))
        else:
            items.append(("undef", "nosuchname"))
    def show(it):
        return genprog.q(it[1]) if it[0] == "str" else it[1]
    amount = g.amount()
    src = "\n".join(pre + ["replace %s %s with %s" % (amount, body, " ".join(show(i) for i in items))])
    fsrc = "\n".join(pre + ["find %s %s" % (amount, body)])
    return src, fsrc, items


def template_case(rng):
    """with-lists in which transforms read variables they did not assign (so any state carried from one item
    or one match to the next shows), and captures made inside a stored pattern"""
    v = rng.choice(["label", "acc", "n"])
    t1 = "set tagged to transform set %s to %s + '#' return %s + match end" % (v, v, v)
    t2 = "set plain to transform return %s + match end" % v
    t3 = "set cnt to transform set k to k + 1 return k end"
    pat = "set number to pattern (at least 1 digit) = digits"
    body = rng.choice(["number", "'<' = open number '>'", "letter = l maybe number", "(number) or (letter = l)"])
    pool = [("transform", "tagged"), ("transform", "plain"), ("transform", "cnt"), ("cap", "digits"), ("cap", "open"), ("cap", "l"),
            ("str", "|"), ("builtin", "matchNumber"), ("builtin", "value"), ("undef", "nothing")]
    items = [rng.choice(pool) for _ in range(rng.randint(2, 6))]
    def show(it):
        return genprog.q(it[1]) if it[0] == "str" else it[1]
    src = "\n".join([t1, t2, t3, pat, "replace all %s with %s" % (body, " ".join(show(i) for i in items))])
    fsrc = "\n".join([t1, t2, t3, pat, "find all %s" % body])
    return src, fsrc, items


def expected_parts(items, m, total):
    """m = parsed match (python list); returns bytes or None if a transform is involved"""
    out = b""
    vars_ = {bytes.fromhex(kv[0][1:]).decode("latin-1"): kv[1] for kv in m[10]}
    for kind, v in items:
        if kind == "str":
            out += v.encode("latin-1")
        elif kind == "cap":
            x = vars_.get(v)
            if isinstance(x, str):
                out += bytes.fromhex(x[1:])
        elif kind == "builtin":
            out += {"value": bytes.fromhex(m[8][1:]), "matchNumber": m[1].encode(), "startOffset": m[2].encode(),
                    "endOffset": m[3].encode(), "totalMatches": str(total).encode(), "lineNumber": m[4].encode(),
                    "columnNumber": m[6].encode(), "filename": b"text"}[v]
        elif kind == "transform":
            return None
    return out


def run(ctx):
    quick = ctx.quick()
    rng = ctx.rng
    cases, meta = [], []
    for i in range(400 if quick else 40000):
        if i % 4 == 0:
            src, fsrc, items = template_case(rng)
            texts = [rng.choice(["a 12 b 345", "<12> <3>", "x1y22", "7", "ab", "<1>a<22>"]) for _ in range(3)] + [genprog.gen_text(rng, "a1<>", 8)]
        else:
            src, fsrc, items = gen_case(rng)
            texts = [genprog.gen_text(rng) for _ in range(5)]
        cases.append({"src": src, "texts": texts})
        cases.append({"src": fsrc, "texts": texts})
        meta.append(items)
    # matches that contain multi-byte characters (and bytes that are no character at all): lengths and offsets given to a transform are those of the
    # match's BYTES, like every offset of the match itself
    size = "set size to transform return '' + matchLength end"
    walk = ("set walk to transform set i to 0 set out to '' set rest to match loop if i >= matchLength then break end set out to out + head rest "
            "set rest to tail rest set i to i + 1 end return out end")
    half = "set half to transform if matchLength > 3 then return 'long' else return 'short' end end"
    mb_texts = ["<ab> <h\xc3\xa9llo> <\xe6\x97\xa5\xe6\x9c\xac> <>", "\xe2\x82\xac5 \xc3\xa9", "a\xff\xfe b", "\xf0\x9f\x98\x80 x", "na\xc3\xafve caf\xc3\xa9"]
    for body in ("at least 1 (not ' ')", "'<' (at least 0 (not '>')) = inner '>'", "any any any", "at least 1 (not in ' ', 'a')"):
        for its in ([("builtin", "value"), ("str", "="), ("transform", "size"), ("str", "@"), ("builtin", "startOffset"), ("str", "-"), ("builtin", "endOffset")],
                    [("transform", "walk"), ("str", "|"), ("transform", "half")], [("transform", "size"), ("transform", "size"), ("cap", "inner")]):
            def show2(it):
                return genprog.q(it[1]) if it[0] == "str" else it[1]
            pre = [size, walk, half]
            cases.append({"src": "\n".join(pre + ["replace all %s with %s" % (body, " ".join(show2(i) for i in its))]), "texts": mb_texts})
            cases.append({"src": "\n".join(pre + ["find all %s" % body]), "texts": mb_texts})
            meta.append(its)
    # the same text matched several times: a transform is run for THAT match - its number, its offsets - not once per distinct text
    nth = "set nth to transform return '<' + matchNumber + ':' + match + '>' end"
    where = "set where to transform return '' + matchLength + '#' + matchNumber end"
    for body in ("at least 1 letter", "(at least 1 letter) = w", "'ab'", "any"):
        for its in ([("transform", "nth")], [("transform", "nth"), ("str", "|"), ("transform", "where")], [("builtin", "matchNumber"), ("transform", "where"), ("builtin", "startOffset")]):
            def show3(it):
                return genprog.q(it[1]) if it[0] == "str" else it[1]
            cases.append({"src": "\n".join([nth, where, "replace all %s with %s" % (body, " ".join(show3(i) for i in its))]), "texts": ["ab cd ab", "ab ab ab", "a a\na", "abab", "x"]})
            cases.append({"src": "\n".join([nth, where, "find all %s" % body]), "texts": ["ab cd ab", "ab ab ab", "a a\na", "abab", "x"]})
            meta.append(its)
    cmpn = "set cmpn to transform if matchNumber < 3 then return 'lo' end if matchNumber >= 10 then return 'big' end return 'mid' end"
    incn = "set incn to transform return '' + (matchNumber + 1) + '/' + (matchNumber * 2) + '/' + (matchLength + matchNumber) end"
    ordn = "set ordn to transform if matchNumber > 9 then return 'B' end if matchNumber <= 2 then return 'A' end return '-' end"
    for body in ("'a'", "letter", "(letter) = w"):
        for its in ([("transform", "cmpn")], [("transform", "incn"), ("str", ";")], [("builtin", "matchNumber"), ("transform", "ordn"), ("transform", "cmpn")]):
            def show5(it):
                return genprog.q(it[1]) if it[0] == "str" else it[1]
            nt_texts = ["a a a a a a a a a a a a", "aaaaaaaaaaa", "a b", "a" * 101]
            cases.append({"src": "\n".join([cmpn, incn, ordn, "replace all %s with %s" % (body, " ".join(show5(i) for i in its))]), "texts": nt_texts})
            cases.append({"src": "\n".join([cmpn, incn, ordn, "find all %s" % body]), "texts": nt_texts})
            meta.append(its)
    # items and captured texts that look like formatting directives: a replacement is the items' texts one after the other, never a format applied to them
    for body in ("(digit) = n", "(at least 1 (not ' ')) = n", "'%' (any = n)"):
        for its in ([("str", "100%"), ("cap", "n")], [("cap", "n"), ("str", "%s"), ("cap", "n"), ("str", "%d"), ("builtin", "value")], [("str", "%"), ("str", "%%"), ("builtin", "matchNumber"), ("str", "%!v")],
                    [("builtin", "value"), ("str", "%"), ("builtin", "value")], [("str", "%[1]s%v"), ("cap", "n"), ("str", "\\n%")]):
            def show4(it):
                return genprog.q(it[1]) if it[0] == "str" else it[1]
            pt = ["a7 8", "15%", "%d 3 %s", "9", "%s%s %v", "100%% %", "%7"]
            cases.append({"src": "replace all %s with %s" % (body, " ".join(show4(i) for i in its)), "texts": pt})
            cases.append({"src": "find all %s" % body, "texts": pt})
            meta.append(its)
    # captures that carry the NAME of something a transform is given (match, matchLength, matchNumber): the transform still runs with the whole match as
    # `match`, its length and its number; the capture of that name is what the with-list item of that name denotes (round 16)
    wrapm = "set wrapm to transform return '[' + match + ']' end"
    lenm = "set lenm to transform return '' + matchLength + '/' + matchNumber end"
    for body in ("(digit = match) '-' (letter = rest)", "(digit = matchLength) '-' (letter = rest)", "(digit = matchNumber) '-' (letter = match)",
                 "(at least 1 digit) = matchLength maybe ('-' (letter = match))"):
        for its in ([("transform", "wrapm"), ("str", ":"), ("cap", "rest")], [("transform", "lenm"), ("str", ":"), ("transform", "wrapm")],
                    [("cap", "rest"), ("transform", "wrapm"), ("transform", "lenm"), ("builtin", "value")]):
            def show6(it):
                return genprog.q(it[1]) if it[0] == "str" else it[1]
            sh_texts = ["1-a 7-x", "12-b 3", "5-q5-r", "-a 9-"]
            cases.append({"src": "\n".join([wrapm, lenm, "replace all %s with %s" % (body, " ".join(show6(i) for i in its))]), "texts": sh_texts})
            cases.append({"src": "\n".join([wrapm, lenm, "find all %s" % body]), "texts": sh_texts})
            meta.append(its)
    gres, dis, stats = corr_core.run_core(cases, shards=12, spec=False)
    report_core_disagreements(ctx, cases, dis, in_scope=in_scope_core, known=known_core)
    ev = 0
    nt = set()
    for k, items in enumerate(meta):
        gr, gf = gres[2 * k], gres[2 * k + 1]
        if "matches_list" not in gr or "matches_list" not in gf:
            continue
        for ti, t in enumerate(cases[2 * k]["texts"]):
            if ti >= len(gr["matches_list"]) or ti >= len(gf["matches_list"]):
                break
            R = parse_matches(gr["matches_list"][ti])
            F = parse_matches(gf["matches_list"][ti])
            ev += 1
            if [m[:9] + m[10:] for m in R] != [m[:9] + m[10:] for m in F]:
                ctx.violation("a replace command reports other matches/offsets/variables than the find command with the same body",
                              {"replace_source": cases[2 * k]["src"], "find_source": cases[2 * k + 1]["src"], "text": t,
                               "replace": gr["matches_list"][ti], "find": gf["matches_list"][ti]})
                break
            for m in R:
                exp = expected_parts(items, m, len(R))
                if exp is None:
                    continue
                got = b"" if m[9] == "none" else bytes.fromhex(m[9][1:])
                if got != exp:
                    ctx.violation("the replacement is not the concatenation of its items for that match",
                                  {"source": cases[2 * k]["src"], "text": t, "match": model.to_sexp(m),
                                   "expected_replacement_hex": exp.hex()})
                    break
                if len(items) >= 2:
                    nt.add((cases[2 * k]["src"], t, m[1]))
    ctx.coverage["evaluations"] = ev
    ctx.coverage["distinct_nontrivial"] = len(nt)
    ctx.coverage["agreement"] = stats
    ctx.coverage["rule"] = ("replace commands whose with-list mixes literal strings, captures (values differing per match), built-ins, undefined names and transforms "
                            "(reading captures and match) x texts; replacement recomputed from the implementation's own match fields; replace vs find with the same body; "
                            "non-trivial = distinct (program,text,match) with at least two items")
    ctx.sample({"source": cases[0]["src"], "text": cases[0]["texts"][0]})


def replay(ctx, obj):
    replay_core(ctx, {"source": obj.get("source") or obj.get("replace_source"), "text": obj.get("text")})
