"""Back-end correspondence shared by C01, C02, C03, C05, C09, C10, C13: generated programs x texts through
implementation, extracted model and extracted specification."""
import json, os, random
import vh, model, corr_core, genprog
from props.common import *

CORPUS = os.path.join(vh.VERIF, "corpus", "core.jsonl")


def load_corpus():
    out = []
    if os.path.exists(CORPUS):
        for line in open(CORPUS):
            line = line.strip()
            if line:
                out.append(json.loads(line))
    return out


def in_scope_core(case, d):
    """inputs inside the quantifier of the back-end properties (DESIGN 7): no named loops (outside the
    refinement theorem), no inverted `between`, no process-code crash"""
    src = case["src"]
    if " named " in src:
        return False
    return True


def run_generated(ctx, n, texts_per=6, gen_kwargs=None, extra=None, shards=12, text_alpha="abc", maxlen=12,
                  in_scope=in_scope_core, spec=True, count_nontrivial=None):
    rng = ctx.rng
    cases = []
    for c in load_corpus():
        cases.append({"src": c["src"], "texts": c["texts"]})
    ncorpus = len(cases)
    for c in (extra or []):
        cases.append(c)
    feats = {}
    for i in range(n):
        g = genprog.ProgGen(rng, **(gen_kwargs or {}))
        src = g.program()
        for f in g.features:
            feats[f] = feats.get(f, 0) + 1
        texts = [genprog.gen_text(rng, text_alpha, maxlen) for _ in range(texts_per)]
        cases.append({"src": src, "texts": texts})
    gres, dis, stats = corr_core.run_core(cases, shards=shards, spec=spec)
    report_core_disagreements(ctx, cases, dis, in_scope=in_scope, known=known_core)
    ctx.coverage["evaluations"] += stats["attempt_texts"]
    nt = set()
    for i, (c, g) in enumerate(zip(cases, gres)):
        ml = g.get("matches_list") or []
        for ti, m in enumerate(ml):
            if m != "()" and (count_nontrivial is None or count_nontrivial(c, m)):
                nt.add((c["src"], c["texts"][ti]))
    ctx.coverage["distinct_nontrivial"] += len(nt)
    ctx.coverage.setdefault("agreement", {})
    for k, v in stats.items():
        ctx.coverage["agreement"][k] = ctx.coverage["agreement"].get(k, 0) + v
    ctx.coverage.setdefault("construct_histogram", {})
    for k, v in feats.items():
        ctx.coverage["construct_histogram"][k] = ctx.coverage["construct_histogram"].get(k, 0) + v
    ctx.coverage["corpus_cases"] = ncorpus
    for c in cases[ncorpus:ncorpus + 2]:
        ctx.sample({"source": c["src"], "text": c["texts"][0] if c["texts"] else ""})
    return cases, gres, dis, stats


def replay_core(ctx, obj):
    src = obj.get("source")
    text = obj.get("text") or ""
    cases = [{"src": src, "texts": [text]}]
    gres, dis, stats = corr_core.run_core(cases, shards=1, spec=True)
    print(json.dumps({"implementation": gres[0].get("matches_list"), "disagreements": dis}, indent=1)[:3000])
