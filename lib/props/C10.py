"""C10: a search without unguarded recursion always terminates."""
from props.core import *
from props.common import E2, E3, E4, MB_TEXTS

ASSUMPTIONS = ["budget: 10 s wall clock per program (all texts) against a model bound of 5000 VM steps per attempt; a case where the model itself exceeds its bound is 'both expensive' and not counted",
               "process loops are outside the property"]

NULLABLE = ["maybe 'a'", "at least 0 'a'", "line start", "line end", "file start", "word start", "not line start", "not file end",
            "()", "maybe 'a' fewest", "at least 0 'a' fewest", "at most 2 'a'", "'a'", "not 'a'", "any",
            # atoms that consume in a loop of their own inside one instruction
            "whole word", "whole line", "whole file", "not whole word", "word end", "file end", "not word start"]


def wrap(p):
    return ["maybe (%s)" % p, "at least 0 (%s)" % p, "at least 0 (%s) fewest" % p, "at least 1 (%s)" % p, "between 0 and 2 (%s)" % p,
            "(%s) or (%s)" % (p, "line end"), "(%s) (%s)" % (p, p), "{%s} = s" % p]


def run(ctx):
    quick = ctx.quick()
    level = list(NULLABLE)
    progs = list(level)
    for depth in range(2 if quick else 2):
        nxt = []
        for p in level:
            nxt += wrap(p)
        level = nxt
        progs += nxt
    if quick:
        progs = progs[:len(NULLABLE)] + ctx.rng.sample(progs[len(NULLABLE):], 250)
    texts = list(all_texts("a\n", 3 if quick else 4))
    extra = [{"src": "find all " + p, "texts": texts} for p in progs]
    # a nullable loop INSIDE another loop, after something was consumed in the outer iteration: each loop's zero-width guard is its own
    for src in ("at least 0 (at least 0 (maybe 'a'))", "at least 0 ('a' at least 0 (maybe 'b'))", "at least 0 ('a' at least 0 (line end))", "maybe ('a' at least 0 (maybe 'b'))",
                "'a' maybe (at least 0 (at least 0 'b' fewest))", "at least 1 ('a' at least 0 (line end))", "at least 0 ('a' at least 0 (at least 0 (maybe 'b')))",
                "at least 0 (maybe 'a') 'b'", "at least 0 (at least 0 'a') file end", "at least 0 (maybe 'a') fewest 'b'", "at least 0 ('a' or at least 0 (maybe 'b') 'c')"):
        extra.append({"src": "find all " + src, "texts": ["a", "ab", "aa", "aab", "b", "", "abab", "a\n", "ba", "ac"]})
    # loops over nullable bodies at every CALL DEPTH and with every kind of loop (named, bounded, fewest): the zero-width guard belongs to the loop
    # instance, which is identified by loop id and call depth - inside inline subroutines, stored patterns, nested calls
    ftexts = ["", "a", "ab", "abba", "aab", "b", "ac", "a\n"]
    for body in (NULLABLE[:12] if quick else NULLABLE):
        for lp in ("at least 0 (%s) named r", "between 0 and 3 (%s) named r", "at least 0 (%s) fewest named r 'c'", "at least 0 (%s)", "at least 1 (%s) named r"):
            loop = lp % body
            extra.append({"src": "find all {'a' %s} = s" % loop, "texts": ftexts})
            extra.append({"src": "set p to pattern 'a' %s\nfind all p" % loop, "texts": ftexts})
            if not quick or body in NULLABLE[:4]:
                extra.append({"src": "find all {'a' {%s} = t maybe t} = s maybe s" % loop, "texts": ftexts})
                extra.append({"src": "set p to pattern %s\nset q to pattern 'a' p\nfind all q p" % loop, "texts": ftexts})
    # a loop iteration that consumed a character of several bytes HAS consumed: the zero-width guard compares byte offsets
    for src in ("'%s' at least 0 maybe 'a'" % E2, "at least 0 maybe '%s'" % E2, "at least 0 (maybe any)", "at least 0 (line end or any)", "'%s' at least 0 (maybe 'a') fewest 'y'" % E2,
                "at least 0 (maybe '%s' maybe 'a')" % E3, "at least 1 (at least 0 '%s')" % E2, "{'%s' at least 0 (maybe 'a')} = s" % E2, "at least 0 (at least 0 (not 'a'))", "at least 0 (maybe (in '%s', 'a'))" % E2):
        extra.append({"src": "find all " + src, "texts": MB_TEXTS})
    cases, gres, dis, stats = run_generated(ctx, 100 if quick else 15000, extra=extra, spec=False)
    ctx.coverage["rule"] = ("all programs up to nesting depth %d over nullable bodies (maybe, at least 0, anchors, empty group, negated anchors, fewest variants) "
                            "x all texts over {a,\\n} up to length %d; the implementation must return within the budget whenever the model does; "
                            "non-trivial = distinct (program,text) with a match" % (3, 3 if quick else 4))
    ctx.coverage["exhaustive"] = not quick
    ctx.coverage["hangs_seen"] = stats.get("go_hang", 0)
    # the outer scan must advance on every byte string, text or not: truncated / stray UTF-8 at every distance from the end
    bprogs = ["find all 'a'", "find all maybe 'a'", "find all at least 0 (line start)", "find all 'z'", "find all at least 0 any fewest 'q'", "find all not 'a'", "find all line end",
              "find all at least 1 letter", "find all any", "replace all maybe 'b' with 'x'"] + ["find all " + p for p in (NULLABLE[:6] if quick else NULLABLE)]
    ctx.coverage["hostile_byte_runs"] = impl_only_runs(ctx, bprogs, HOSTILE_TAILS + [t[:k] for t in HOSTILE_TAILS[:6] for k in range(len(t))], "C10", timeout_ms=8000)


def replay(ctx, obj):
    replay_core(ctx, obj)
