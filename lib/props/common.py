"""Shared pieces of the per-property correspondence checks."""
import itertools, json
import vh, model, corr_core, genprog


def all_texts(alpha, maxlen):
    for n in range(maxlen + 1):
        for t in itertools.product(alpha, repeat=n):
            yield "".join(t)


def parse_matches(sx):
    """'(m ...)(m ...)' sexp string -> list of python lists"""
    return model.parse_sexp(sx)


def report_core_disagreements(ctx, cases, dis, in_scope=lambda case, d: True, known=lambda case, d: None):
    """Default decision rule for the back-end correspondence (see DESIGN 2):
    the model is proved equal to the spec on in-scope inputs, so an in-scope disagreement between
    implementation and model is a failing input of the property; out-of-scope ones only break the tie."""
    for d in dis:
        ci = d.get("case")
        case = cases[ci] if ci is not None else None
        rep = {"layer": d["layer"], "source": case["src"] if case else None,
               "text": case["texts"][d["text"]] if case and d.get("text") is not None else None,
               "implementation": d.get("go"), "model": d.get("model"), "detail": d.get("detail")}
        k = known(case, d) if case else None
        if k:
            # these findings belong to C09 ("never crashes"); elsewhere the input is simply outside the quantifier
            if ctx.pid == "C09":
                ctx.known_finding(k)
            else:
                ctx.coverage["skipped_inputs_of_known_C09_findings"] = ctx.coverage.get("skipped_inputs_of_known_C09_findings", 0) + 1
            continue
        if d["layer"] in ("DRIVER",):
            ctx.corr_break(d["layer"], rep)
            continue
        if d["layer"] == "CORR-GEN" and str(d.get("go")).startswith("("):
            # both sides accept the program and emit different code: the tie to the generator model is broken, but that alone is no failing input of a
            # property about results - the same case is also run end to end and on the implementation's own bytecode (CORR-E2E / CORR-VM), which decide
            ctx.corr_break(d["layer"], rep)
            continue
        if case is not None and in_scope(case, d):
            ctx.violation("%s: implementation and proved model differ on an in-scope input" % d["layer"], rep)
        else:
            ctx.corr_break(d["layer"], rep)


DIVZERO = "process expression divides by zero at run time (Go panics: integer divide by zero) [K23]"


def known_core(case, d):
    """known findings shared by the back-end checks"""
    g = str(d.get("go"))
    if "integer divide by zero" in g and "divzero" in str(d.get("model")):
        return DIVZERO
    return None


# byte strings that are not text: truncated and stray UTF-8 sequences at every distance from the end (held as latin-1 str, like every text here)
# texts with characters of two, three and four bytes (UTF-8), a byte order mark, stray bytes: sizes, offsets and loop guards are in BYTES
E2, E3, E4, BOM = "\xc3\xa9", "\xe2\x82\xac", "\xf0\x9f\x98\x80", "\xef\xbb\xbf"
MB_TEXTS = [E2, E2 + "a", E2 + "ac", E2 + "ab", "a" + E2 + "bc", E2 + "a" + E2 + "a", E2 + E2 + "a" + E2, E3 + "42", E2 + "ab-ab", E2 + "\n", E2 + "ay", E4 + "a", "ab!\xff\xc3\xbc!abc!",
            BOM + "abc abc", BOM + "a", "\xffa", "a" + E3 + E2 + "a", "abcd"]

HOSTILE_TAILS = ["caf\xc3\xa9", "caf\xc3", "ab\xe2\x82\xac", "ab\xe2\x82", "ab\xe2", "\xf0\x9f\x98\x80x", "\xf0\x9f\x98", "\xf0\x9f", "\xf0", "\xff", "b\xff", "\xffab",
                 "a\xa9", "\xc3z", "a\xc3bc", "\xc3\xa9\xc3", "a\x80\x80", "\xe2\x82\xac\xe2\x82", "1\xc3", "a\n\xc3", " \xe2\x82"]


def impl_only_runs(ctx, progs, texts, what, timeout_ms=10000):
    """programs x byte texts on the implementation alone: whatever the bytes, Run must return (no panic, no hang).  Returns the number of runs."""
    cases = [{"op": "e2e", "src_hex": vh.hexs(p), "texts_hex": [vh.hexs(t) for t in texts]} for p in progs]
    res = vh.run_cases(cases, shards=8, timeout_ms=timeout_ms)
    n = 0
    for p, r in zip(progs, res):
        if "err" in r and "matches_list" not in r and "panic" not in r:
            continue
        done = len(r.get("matches_list") or [])
        n += done
        if r.get("api_diff"):
            ctx.violation("%s: (*Vore).Run of libvore.Compile's program differs from the pipeline's result" % what, {"source": p, "difference": str(r["api_diff"])[:500]})
        if "panic" in r or r.get("hang") or r.get("oom") or r.get("fatal"):
            t = texts[done] if done < len(texts) else None
            ctx.violation("%s: Run %s on a byte string that is not well-formed text" % (what, "panics" if "panic" in r else "does not return"),
                          {"source": p, "text_hex": vh.hexs(t) if t is not None else None, "outcome": str({k: v for k, v in r.items() if k in ("panic", "hang", "oom", "fatal")})[:400]})
    return n
