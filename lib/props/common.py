"""Shared pieces of the per-property correspondence checks."""
import itertools, json
import vh, model, corr_core, genprog


def all_texts(alpha, maxlen):
    for n in range(maxlen + 1):
        for t in itertools.product(alpha, repeat=n):
            yield "".join(t)


def parse_matches(sx):
    """'(m ...)(m ...)' sexp string -> list of python lists"""
    return model.parse_sexp(sx)


def report_core_disagreements(ctx, cases, dis, in_scope=lambda case, d: True, known=lambda case, d: None):
    """Default decision rule for the back-end correspondence (see DESIGN 2):
    the model is proved equal to the spec on in-scope inputs, so an in-scope disagreement between
    implementation and model is a failing input of the property; out-of-scope ones only break the tie."""
    for d in dis:
        ci = d.get("case")
        case = cases[ci] if ci is not None else None
        rep = {"layer": d["layer"], "source": case["src"] if case else None,
               "text": case["texts"][d["text"]] if case and d.get("text") is not None else None,
               "implementation": d.get("go"), "model": d.get("model"), "detail": d.get("detail")}
        k = known(case, d) if case else None
        if k:
            # these findings belong to C09 ("never crashes"); elsewhere the input is simply outside the quantifier
            if ctx.pid == "C09":
                ctx.known_finding(k)
            else:
                ctx.coverage["skipped_inputs_of_known_C09_findings"] = ctx.coverage.get("skipped_inputs_of_known_C09_findings", 0) + 1
            continue
        if d["layer"] in ("DRIVER",):
            ctx.corr_break(d["layer"], rep)
            continue
        if case is not None and in_scope(case, d):
            ctx.violation("%s: implementation and proved model differ on an in-scope input" % d["layer"], rep)
        else:
            ctx.corr_break(d["layer"], rep)


DIVZERO = "process expression divides by zero at run time (Go panics: integer divide by zero) [K23]"


def known_core(case, d):
    """known findings shared by the back-end checks"""
    g = str(d.get("go"))
    if "integer divide by zero" in g and "divzero" in str(d.get("model")):
        return DIVZERO
    return None
