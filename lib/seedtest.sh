#!/bin/bash
# seedtest.sh <patch.diff> <prop> [<prop>...] : apply a seeded change to /repo, run the quick checks, undo it.
patch="$1"; shift
cd /repo || exit 2
git apply --check "$patch" || { echo "patch does not apply"; exit 2; }
git apply "$patch"
for p in "$@"; do
  out=$(cd /verif && ./check "$p" --tier quick 2>&1)
  rc=$?
  echo "== $p exit=$rc"
  echo "$out" | grep -E "^VIOLATION|^  " | head -4
done
git -C /repo checkout -- . ; git -C /repo status --short | head -3
git -C /verif checkout -- evidence 2>/dev/null
