#!/bin/bash
# Independent re-check of every compiled library of the development with coqchk (the kernel's
# stand-alone checker) and the list of axioms they rely on.  Slow (minutes): thorough tier only.
# Writes /verif/evidence/coqchk.txt.
cd "$(dirname "$0")/../coq" || exit 2
make -j16 > /dev/null 2>&1 || { echo "coq build failed"; exit 1; }
mods=$(ls Properties/*.v | sed 's#Properties/\(.*\)\.v#Properties.\1#')
# the property files that depend on generated input (compiled by the C19 / C08 / C15 checks against Generated/*.v): included when their .vo are there
sep=""
for f in Separate/*.v; do b=$(basename "$f" .v); [ -f "Separate/$b.vo" ] && sep="$sep $b"; done
( echo "coqchk $(coqchk --version 2>&1 | head -1)"; date -u; echo "modules: $mods$sep";
  timeout 7200 coqchk -silent -o -Q Model Model -Q Proofs Proofs -Q Spec Spec -Q Properties Properties -Q Generated Generated -Q Separate "" $mods $sep 2>&1 ) > ../evidence/coqchk.txt
rc=$?
tail -30 ../evidence/coqchk.txt
exit $rc
