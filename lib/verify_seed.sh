#!/bin/bash
# verify_seed.sh <dir-with-patch.diff-and-demo_test.go> : confirm in a scratch worktree that the change
# compiles, passes the existing suite, and that the demo passes without it and fails with it.
set -u
d="$1"
wt=$(mktemp -d /var/tmp/seedwt-XXXX)
git -C /repo worktree add -q --detach "$wt" HEAD || exit 2
export GOPROXY=off GOSUMDB=off GOTOOLCHAIN=local
demo=$(ls "$d"/demo*_test.go 2>/dev/null | head -1)
pkgdir="$wt/libvore"
pkg=$(grep -m1 "^package " "$demo" | awk '{print $2}' | sed 's/_test$//')
case "$pkg" in
  main) pkgdir="$wt" ;;
  files|engine|ast|bytecode|ds|algo) pkgdir="$wt/libvore/$pkg" ;;
esac
cp "$demo" "$pkgdir/zz_seed_demo_test.go"
run_demo() { (cd "$pkgdir" && go test -vet=off -count=1 -run 'Seed|Demo' . 2>&1 | tail -3); }
echo "--- demo without the change:"; run_demo | grep -E "^(ok|FAIL|---)" | head -3
(cd "$wt" && git apply "$d/patch.diff") || { echo "patch failed"; }
echo "--- existing suite with the change:"
rm "$pkgdir/zz_seed_demo_test.go"
for m in libvore libvore/ast libvore/bytecode libvore/engine libvore/files libvore/ds libvore/algo; do (cd "$wt/$m" && go test -vet=off -count=1 ./... 2>&1 | grep -E "^(FAIL|ok)" | head -2); done | sort | uniq -c | head
(cd "$wt" && go build -o /dev/null . && echo "cli builds")
cp "$demo" "$pkgdir/zz_seed_demo_test.go"
echo "--- demo with the change:"; run_demo | grep -E "^(ok|FAIL|---)" | head -3
git -C /repo worktree remove --force "$wt"
