#!/bin/bash
# coverage.sh [tier] : a survey, not a check - which statements of jmeaster30/vore do the registered checks execute at all?
# Builds the harness and the CLI with -cover, runs every check of the tier, prints per-function coverage of the vore packages
# (functions below 100 % first).  Code no check reaches is code whose change no check can notice.
tier=${1:-quick}
cd /verif
cov=$(mktemp -d /var/tmp/vcover-XXXX)
export VERIF_COVER=1 GOCOVERDIR=$cov
for i in $(seq -w 1 20); do ./check C$i --tier $tier > /dev/null 2>&1; done
unset VERIF_COVER
cd /verif/harness
export GOFLAGS=-mod=mod GOPROXY=off GOSUMDB=off GOTOOLCHAIN=local GOWORK=off
go tool covdata textfmt -i=$cov -o $cov/profile.txt 2>/dev/null
go tool cover -func=$cov/profile.txt 2>/dev/null | grep -v "100.0%" | grep -v "^vharness" | sort -k3 -n | sed 's|github.com/jmeaster30/vore/||'
go tool covdata percent -i=$cov 2>/dev/null | grep -v vharness
echo "profile: $cov/profile.txt (remove the directory when done)"
git -C /verif checkout -- evidence
