#!/usr/bin/env python3
"""save_seed.py <src-dir> <name> <property> <caught-by csv> <needs...>"""
import sys, os, shutil, json
src, name, prop, caught = sys.argv[1:5]
needs = " ".join(sys.argv[5:])
d = os.path.join("/verif/seeded", name)
os.makedirs(d, exist_ok=True)
for f in os.listdir(src):
    shutil.copy(os.path.join(src, f), os.path.join(d, f))
meta = {"property": prop, "needs_to_manifest": needs,
        "confirmed": "lib/verify_seed.sh in a scratch worktree: applies; existing suite passes and CLI builds with it; demo passes without it and fails with it",
        "checks_run": "lib/seedtest.sh patch.diff <props> (git -C /repo apply; ./check <prop> --tier quick; git -C /repo checkout -- .)",
        "caught_by": caught.split(",") if caught else []}
json.dump(meta, open(os.path.join(d, "meta.json"), "w"), indent=1)
print("saved", d)
