"""Layered correspondence between the Go implementation and the extracted Coq model for the
back end: AST (from Go's parser) -> bytecode (CORR-GEN), model VM on Go's bytecode (CORR-VM),
end-to-end matches (CORR-E2E)."""
import re
import vh, model

GEN_ERR_KINDS = [("name clash", "nameclash"), ("is not defined", "undefined")]
CHECK_MSGS = {
    "Operator not defined for type.": 1,
    "This operator is not valid on this expression": 2,
    "Since we are in the predicate of a pattern, return values must be a boolean": 3,
    "Since we are in a transform function, return values must be a string or a number": 4,
    "Condition of an if statement must be a boolean.": 5,
    "Cannot use 'continue' outside of a loop.": 6,
    "Cannot use 'break' outside of a loop.": 7,
}


def go_generr_class(msg):
    for pat, k in GEN_ERR_KINDS:
        if pat in msg:
            return k
    for m, n in CHECK_MSGS.items():
        if m in msg:
            return "check%d" % n
    return "other:" + msg[:60]


def model_generr_class(sx):
    # sx = ['err', [kind, ...]]
    kind = sx[1][0]
    if kind == "check":
        return "check" + sx[1][1]
    return kind


def run_core(cases, shards=8, fuel=None, timeout_ms=10000, spec=False, spec_fuel=300):
    """cases: list of dict(src=str(latin-1), texts=[str]).  Returns (go_results, disagreements, stats).
    Each disagreement: dict(layer, case index, text index or None, go=..., model=...)."""
    go_cases = [{"op": "e2e", "src_hex": vh.hexs(c["src"]), "texts_hex": [vh.hexs(t) for t in c["texts"]], "percmd": bool(spec)} for c in cases]
    gres = vh.run_cases(go_cases, shards=shards, timeout_ms=timeout_ms)
    # cases on which the implementation hung: compile only, to obtain the AST for the model
    hung = [i for i, g in enumerate(gres) if g.get("hang") or g.get("oom") or g.get("fatal") or g.get("missing")]
    if hung:
        again = vh.run_cases([{"op": "e2e", "src_hex": vh.hexs(cases[i]["src"])} for i in hung], timeout_ms=timeout_ms)
        for i, g2 in zip(hung, again):
            if "ast" in g2:
                gres[i]["ast"] = g2["ast"]
    lines = []
    for i, (c, g) in enumerate(zip(cases, gres)):
        if "ast" not in g or "nil" in g["ast"] or "unknown-" in g["ast"]:
            continue
        texts = "(" + " ".join("h" + vh.hexs(t) for t in c["texts"]) + ")"
        extra = (" %d" % fuel) if fuel else ""
        lines.append("(m%d run %s %s%s)" % (i, g["ast"], texts, extra))
        if "bc" in g:
            lines.append("(b%d runbc %s %s%s)" % (i, model.canon_loop_ids(g["bc"]), texts, extra))
            # the specification enumerates ALL outcomes: with many loops in a row (large unrolled counts over nullable bodies) that list is exponential; such
            # programs are compared at the bytecode / VM / end-to-end layers only
            if spec and "named" not in c["src"] and g["bc"].count("(startloop") <= 14:
                lines.append("(s%d spec %s %s %d)" % (i, g["ast"], texts, spec_fuel))
    mres = model.run_model(lines, shards=shards)
    dis = []
    stats = {"cases": len(cases), "go_lexparse_err": 0, "go_gen_err": 0, "go_panic": 0, "go_hang": 0, "compiled": 0,
             "attempt_texts": 0, "texts_with_match": 0, "model_fuel": 0, "gen_agree": 0, "vm_agree": 0, "e2e_agree": 0,
             "model_crash_agree": 0}
    if "__driver_error__" in mres:
        dis.append({"layer": "DRIVER", "case": None, "detail": mres["__driver_error__"]})
    for i, (c, g) in enumerate(zip(cases, gres)):
        mk = "m%d" % i
        if g.get("api_diff"):
            # the public entry points (libvore.Compile, (*Vore).Run) against the pipeline the model is compared with, in the same process
            dis.append({"layer": "CORR-API", "case": i, "text": g.get("api_text"), "go": str(g["api_diff"])[:500], "model": "(same as the pipeline)"})
        if g.get("hang") or g.get("oom") or g.get("fatal") or g.get("missing"):
            stats["go_hang"] += 1
            # the implementation did not come back within the budget: a disagreement only if the
            # model finishes every text within its step budget (otherwise both are merely expensive)
            mtxt = mres.get(mk, "")
            if "(fuel)" in mtxt:
                stats["both_expensive"] = stats.get("both_expensive", 0) + 1
            else:
                dis.append({"layer": "IMPL-HANG", "case": i, "model": mtxt[:300],
                            "go": {k: g[k] for k in g if k in ("hang", "oom", "fatal", "missing", "stderr")}})
            continue
        if "ast" not in g:
            if "panic" in g:
                stats["go_panic"] += 1
                dis.append({"layer": "IMPL-PANIC-COMPILE", "case": i, "go": g["panic"]})
            else:
                stats["go_lexparse_err"] += 1
            continue
        if mk not in mres:
            if "panic" in g:
                stats["go_panic"] += 1
                dis.append({"layer": "IMPL-PANIC-COMPILE", "case": i, "go": g["panic"], "ast": g["ast"]})
            else:
                dis.append({"layer": "AST-HOLE", "case": i, "go": g["ast"][:300]})
            continue
        if mres[mk].startswith("(resource"):
            stats["model_resource"] = stats.get("model_resource", 0) + 1     # the model could not evaluate the case within its memory limit
            continue
        m = model.parse_sexp(mres[mk])
        if m[0] == "error":
            dis.append({"layer": "DRIVER", "case": i, "detail": mres[mk], "ast": g["ast"][:300]})
            continue
        if "bc" not in g:
            # implementation rejected in the generator (or panicked)
            if "panic" in g:
                stats["go_panic"] += 1
                dis.append({"layer": "IMPL-PANIC-COMPILE", "case": i, "go": g["panic"]})
                continue
            stats["go_gen_err"] += 1
            gk = go_generr_class(g.get("err", ""))
            if m[0] != "err":
                dis.append({"layer": "CORR-GEN", "case": i, "go": "err:" + gk, "model": "accepts"})
            elif model_generr_class(m) != gk:
                dis.append({"layer": "CORR-GEN", "case": i, "go": "err:" + gk, "model": "err:" + model_generr_class(m)})
            else:
                stats["gen_agree"] += 1
            continue
        stats["compiled"] += 1
        if m[0] == "err":
            dis.append({"layer": "CORR-GEN", "case": i, "go": "accepts", "model": "err:" + model_generr_class(m)})
            continue
        gbc = model.canon_loop_ids(g["bc"])
        mbc = model.canon_loop_ids(model.to_sexp(m[1]))
        if gbc != mbc:
            dis.append({"layer": "CORR-GEN", "case": i, "go": gbc, "model": mbc})
        else:
            stats["gen_agree"] += 1
        # end to end and VM-on-go-bytecode
        if "panic" in g:
            stats["go_panic"] += 1
        gl = g.get("matches_list")
        mouts = m[2]
        bk = "b%d" % i
        bouts = model.parse_sexp(mres[bk])[1] if bk in mres and mres[bk].startswith("(ok") else None
        for ti, t in enumerate(c["texts"]):
            stats["attempt_texts"] += 1
            mo = mouts[ti]
            go_m = gl[ti] if gl is not None and ti < len(gl) else None
            if go_m is None:
                # the implementation panicked somewhere in this case (texts run in order)
                if mo[0] == "crash":
                    stats["model_crash_agree"] += 1
                    dis.append({"layer": "IMPL-PANIC-RUN", "case": i, "text": ti, "go": g.get("panic"), "model": model.to_sexp(mo), "agree": True})
                elif mo[0] == "fuel":
                    stats["model_fuel"] += 1
                else:
                    dis.append({"layer": "IMPL-PANIC-RUN", "case": i, "text": ti, "go": g.get("panic"), "model": model.to_sexp(mo)[:300], "agree": False})
                break
            if mo[0] == "fuel":
                stats["model_fuel"] += 1
                continue
            if mo[0] == "crash":
                dis.append({"layer": "CORR-E2E", "case": i, "text": ti, "go": go_m[:300], "model": model.to_sexp(mo)})
                continue
            ms = model.to_sexp(mo[1])
            nonascii = any(ord(ch) > 127 for ch in t)
            if nonascii:
                # columns count characters in the implementation and bytes in the model (DESIGN 5): on texts with bytes >= 0x80 they are left out of the comparison
                ms, go_m = mask_columns(ms), mask_columns(go_m)
            if go_m != "()":
                stats["texts_with_match"] += 1
            if ms != go_m:
                dis.append({"layer": "CORR-E2E", "case": i, "text": ti, "go": go_m, "model": ms})
            else:
                stats["e2e_agree"] += 1
            if bouts is not None:
                bo = bouts[ti]
                if bo[0] == "ok":
                    bs = model.to_sexp(bo[1])
                    if nonascii:
                        bs = mask_columns(bs)
                    if bs != go_m:
                        dis.append({"layer": "CORR-VM", "case": i, "text": ti, "go": go_m, "model": bs})
                    else:
                        stats["vm_agree"] += 1
    if spec:
        spec_compare(cases, gres, mres, dis, stats)
    return gres, dis, stats


def mask_columns(sx):
    """the same list of matches with the two column fields blanked"""
    try:
        ms = model.parse_sexp(sx)
        for m in ms:
            if isinstance(m, list) and len(m) > 7 and m[0] == "m":
                m[6] = m[7] = "_"
        return model.to_sexp(ms)
    except Exception:
        return sx


def window_of(cmd_ast):
    """(all, skip, take, last) of a find/replace command's AST sexp (python list)"""
    return cmd_ast[1] == "t", int(cmd_ast[2]), int(cmd_ast[3]), int(cmd_ast[4])


def apply_window(A, w):
    all_, skip, take, last = w
    if all_:
        r = A[skip:]
        if last != 0:
            r = r[max(0, len(r) - last):]
        return r
    return A[skip:skip + take]


def spec_compare(cases, gres, mres, dis, stats):
    """implementation vs the specification (Spec/FindSpec.v), command by command: spans and variables"""
    stats.setdefault("spec_agree", 0)
    stats.setdefault("spec_nofuel", 0)
    stats.setdefault("concat_agree", 0)
    for i, (c, g) in enumerate(zip(cases, gres)):
        sk = "s%d" % i
        if sk not in mres or "percmd_list" not in g:
            continue
        sp = model.parse_sexp(mres[sk])
        if sp[0] != "ok":
            continue
        ast = model.parse_sexp(g["ast"])
        for ti, t in enumerate(c["texts"]):
            if ti >= len(g["percmd_list"]):
                break
            per = g["percmd_list"][ti]
            # C13: the whole run is the concatenation of the commands run alone
            whole = model.parse_sexp(g["matches_list"][ti])
            cat = []
            for pc in per:
                cat += model.parse_sexp(pc)
            if cat != whole:
                dis.append({"layer": "IMPL-CONCAT", "case": i, "text": ti, "go": g["matches_list"][ti], "model": model.to_sexp(cat)})
            else:
                stats["concat_agree"] += 1
            for ci, (cmd, pc) in enumerate(zip(ast, per)):
                if cmd[0] not in ("find", "replace"):
                    continue
                so = sp[1][ti][ci]
                if so[0] != "spans":
                    stats["spec_nofuel"] += 1
                    continue
                spans = apply_window(so[1:], window_of(cmd))
                gm = model.parse_sexp(pc)
                tb = t.encode("latin-1")
                got = [[m[2], m[3], m[8], m[10]] for m in gm]
                exp = [[s_[0], s_[1], "h" + tb[int(s_[0]):int(s_[1])].hex(), s_[2]] for s_ in spans]
                if got != exp:
                    dis.append({"layer": "SPEC-E2E", "case": i, "text": ti, "cmd": ci, "go": model.to_sexp(got), "model": model.to_sexp(exp)})
                else:
                    stats["spec_agree"] += 1
