#!/usr/bin/env python3
"""Rewrites the table of section 12 of DESIGN.md from seeded/*/meta.json."""
import glob, json, os, re
V = os.path.dirname(os.path.dirname(os.path.abspath(__file__)))
rows = []
for m in sorted(glob.glob(os.path.join(V, "seeded", "*", "meta.json"))):
    x = json.load(open(m))
    rows.append("| %s | %s | %s |" % (os.path.basename(os.path.dirname(m)), ", ".join(x["caught_by"]), x["needs_to_manifest"].replace("|", "\\|")))
p = os.path.join(V, "DESIGN.md")
d = open(p).read()
head = "| Seed | Caught by | Needs, to manifest |\n|---|---|---|\n"
i = d.index(head)
d = d[:i] + head + "\n".join(rows) + "\n"
open(p, "w").write(d)
print(len(rows), "seeds")
