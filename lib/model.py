"""Build and run the extracted Coq model (ocaml/driver) and the Coq development."""
import os, subprocess, tempfile, re, shutil, time
from vh import VERIF, scratch

COQ = os.path.join(VERIF, "coq")
OCAML = os.path.join(VERIF, "ocaml")


class ModelBuildError(Exception):
    pass


def coq_make(clean=False, jobs=16):
    """Full .vo build of the Coq development.  Returns (ok, log)."""
    if clean:
        subprocess.run("make -s clean >/dev/null 2>&1; find . -name '*.vo' -o -name '*.glob' -o -name '*.vok' -o -name '*.vos' -o -name '.*.aux' | xargs rm -f",
                       shell=True, cwd=COQ)
    if not os.path.exists(os.path.join(COQ, "Makefile")) or \
            os.path.getmtime(os.path.join(COQ, "Makefile")) < os.path.getmtime(os.path.join(COQ, "_CoqProject")):
        subprocess.run(["coq_makefile", "-f", "_CoqProject", "-o", "Makefile"], cwd=COQ, capture_output=True)
    p = subprocess.run(["timeout", "3000", "make", "-j%d" % jobs], cwd=COQ, capture_output=True, text=True)
    return p.returncode == 0, p.stdout + p.stderr


def build_driver(force=False):
    exe = os.path.join(OCAML, "driver")
    srcs = [os.path.join(OCAML, f) for f in ("driver.ml", "zarith_free.ml")] + \
           [os.path.join(COQ, "Extract.v")]
    for root, _, fs in os.walk(COQ):
        for f in fs:
            if f.endswith(".v"):
                srcs.append(os.path.join(root, f))
    if not force and os.path.exists(exe) and all(os.path.getmtime(s) <= os.path.getmtime(exe) for s in srcs):
        return exe
    ok, log = coq_make()
    if not ok:
        raise ModelBuildError(log[-4000:])
    p = subprocess.run(["./build.sh"], cwd=OCAML, capture_output=True, text=True)
    if p.returncode != 0:
        raise ModelBuildError(p.stdout + p.stderr)
    return exe


def run_model(lines, shards=1):
    """lines: list of sexp strings '(id op ...)'.  Returns dict id -> result sexp string."""
    if not lines:
        return {}
    exe = build_driver()
    if shards > 1 and len(lines) >= 4 * shards:
        from concurrent.futures import ThreadPoolExecutor
        chunks = [lines[i::shards] for i in range(shards)]
        out = {}
        with ThreadPoolExecutor(shards) as ex:
            for d in ex.map(lambda ch: run_model(ch, 1), chunks):
                out.update(d)
        return out
    res = {}
    remaining = list(lines)
    for _ in range(50):
        r, rc, err = _run_once(exe, remaining)
        res.update(r)
        if rc == 0:
            break
        # the driver died (memory limit, stack): the first unanswered case is the one it could not evaluate;
        # it is marked and the rest is run in a new process
        ids = [l[1:].split(" ", 1)[0] for l in remaining]
        idx = next((k for k, i in enumerate(ids) if i not in res), None)
        if idx is None:
            break
        res[ids[idx]] = "(resource)"
        remaining = remaining[idx + 1:]
        if not remaining:
            break
    else:
        res["__driver_error__"] = "driver kept dying: " + err[-500:]
    return res


def _run_once(exe, lines):
    d = tempfile.mkdtemp(prefix="model-", dir=scratch())
    fin = os.path.join(d, "in.sx")
    fout = os.path.join(d, "out.txt")
    with open(fin, "w") as f:
        for l in lines:
            f.write(l + "\n")
    env = dict(os.environ, OCAMLRUNPARAM="l=4G")
    # 4 GB address-space limit per driver process: a case whose evaluation explodes (exponentially many outcomes) is dropped, not the machine
    # ... and 10 minutes of CPU per driver process (a case that backtracks exponentially in the model is dropped like one that exhausts memory)
    p = subprocess.run(["bash", "-c", "ulimit -s unlimited 2>/dev/null; ulimit -v 4194304 2>/dev/null; ulimit -t 600 2>/dev/null; exec \"$0\" \"$1\" \"$2\"", exe, fin, fout],
                       capture_output=True, text=True, env=env)
    res = {}
    if os.path.exists(fout):
        for line in open(fout):
            line = line.rstrip("\n")
            if "\t" in line:
                k, v = line.split("\t", 1)
                res[k] = v
    shutil.rmtree(d, ignore_errors=True)
    return res, p.returncode, p.stderr


# ---- tiny sexp reader for the driver's answers ----
def parse_sexp(s):
    pos = 0
    n = len(s)

    def one():
        nonlocal pos
        while pos < n and s[pos] in " \t\n":
            pos += 1
        if s[pos] == "(":
            pos += 1
            items = []
            while True:
                while pos < n and s[pos] in " \t\n":
                    pos += 1
                if s[pos] == ")":
                    pos += 1
                    return items
                items.append(one())
        st = pos
        while pos < n and s[pos] not in " \t\n()":
            pos += 1
        return s[st:pos]
    return one()


def to_sexp(x):
    if isinstance(x, list):
        return "(" + " ".join(to_sexp(i) for i in x) + ")"
    return x


_loop_re = re.compile(r"\((start|stop)loop L(-?\d+)")


def canon_loop_ids(bc):
    """Rename loop ids by first occurrence: L0, L1, ... (math/rand ids are not observable)."""
    ids = {}

    def rep(m):
        k = m.group(2)
        if k not in ids:
            ids[k] = len(ids)
        return "(%sloop L%d" % (m.group(1), ids[k])
    return _loop_re.sub(rep, bc)
