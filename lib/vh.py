"""Build and drive the Go correspondence harness (/verif/harness) against /repo's working tree."""
import json, os, subprocess, tempfile, shutil, time, threading

VERIF = os.path.dirname(os.path.dirname(os.path.abspath(__file__)))
GOENV = dict(os.environ, GOFLAGS="-mod=mod", GOPROXY="off", GOSUMDB="off", GOTOOLCHAIN="local",
             GOWORK="off", CGO_ENABLED=os.environ.get("CGO_ENABLED", "0"))

_scratch = None
_lock = threading.RLock()       # the sharded runners call scratch() and build_harness() from several threads at once


def scratch():
    """Scratch directory outside /repo and /verif, removed at exit."""
    global _scratch
    with _lock:
        if _scratch is None:
            base = os.environ.get("VERIF_SCRATCH_BASE", "/var/tmp")
            os.makedirs(base, exist_ok=True)
            _scratch = tempfile.mkdtemp(prefix="vverif-", dir=base)
            import atexit
            atexit.register(lambda: shutil.rmtree(_scratch, ignore_errors=True))
        return _scratch


_built = {}


def build_harness(tags="verif", race=False):
    with _lock:
        return _build_harness(tags, race)


def _build_harness(tags, race):
    key = (tags, race)
    if key in _built:
        return _built[key]
    out = os.path.join(scratch(), "vharness" + ("-race" if race else ""))
    cmd = ["go", "build", "-tags", tags, "-o", out]
    if os.environ.get("VERIF_COVER") and not race:
        # coverage survey (lib/coverage.sh): which statements of the implementation the checks execute at all
        cmd[2:2] = ["-cover", "-coverpkg=vharness,github.com/jmeaster30/vore/..."]   # the main package must be instrumented too, or nothing is written
    env = dict(GOENV)
    if race:
        cmd.insert(2, "-race")
        env["CGO_ENABLED"] = "1"
    cmd.append(".")
    t0 = time.time()
    p = subprocess.run(cmd, cwd=os.path.join(VERIF, "harness"), env=env, capture_output=True, text=True)
    if p.returncode != 0:
        raise BuildError(p.stdout + p.stderr)
    _built[key] = out
    return out


class BuildError(Exception):
    pass


def build_cli():
    out = os.path.join(scratch(), "vore-cli")
    if os.path.exists(out):
        return out
    env = dict(os.environ, GOFLAGS="", GOPROXY="off", GOSUMDB="off", GOTOOLCHAIN="local")
    env.pop("GOWORK", None)
    p = subprocess.run(["go", "build"] + (["-cover", "-coverpkg=github.com/jmeaster30/vore/..."] if os.environ.get("VERIF_COVER") else []) + ["-o", out, "."],
                       cwd="/repo", env=env, capture_output=True, text=True)
    if p.returncode != 0:
        raise BuildError(p.stdout + p.stderr)
    return out


def run_cases(cases, timeout_ms=10000, maxmem=2048, race=False, binary=None, shards=1):
    """Run a list of case dicts; returns list of result dicts aligned with cases (by index)."""
    if not cases:
        return []
    if shards > 1 and len(cases) >= 4 * shards:
        from concurrent.futures import ThreadPoolExecutor
        chunks = [cases[i::shards] for i in range(shards)]
        with ThreadPoolExecutor(shards) as ex:
            parts = list(ex.map(lambda ch: run_cases(ch, timeout_ms, maxmem, race, binary, 1), chunks))
        res = [None] * len(cases)
        for i, part in enumerate(parts):
            res[i::shards] = part
        return res
    exe = binary or build_harness(race=race)
    d = tempfile.mkdtemp(prefix="run-", dir=scratch())
    fin = os.path.join(d, "in.jsonl")
    fout = os.path.join(d, "out.jsonl")
    with open(fin, "w") as f:
        for i, c in enumerate(cases):
            c = dict(c)
            c.setdefault("id", i)
            f.write(json.dumps(c) + "\n")
    start = 0
    results = {}
    while start < len(cases):
        if os.path.exists(fout):
            os.remove(fout)
        try:
            p = subprocess.run([exe, "-in", fin, "-out", fout, "-start", str(start), "-timeout", str(timeout_ms),
                                "-maxmem", str(maxmem)], capture_output=True, text=True,
                               timeout=max(60, len(cases) * timeout_ms / 1000.0 + 30), cwd=d,
                               env=dict(os.environ, TMPDIR=d))      # the harness's scratch directories live (and die) with this run's directory, not under /tmp
            rc = p.returncode
            err = p.stderr
        except subprocess.TimeoutExpired:
            rc = -9
            err = "harness wall-clock timeout"
        last = start - 1
        if os.path.exists(fout):
            for line in open(fout):
                line = line.strip()
                if not line:
                    continue
                try:
                    r = json.loads(line)
                except Exception:
                    continue
                results[r["index"]] = r
                last = max(last, r["index"])
        if rc == 0:
            break
        if rc == 3:
            start = last + 1
            continue
        # crashed hard (fatal error, e.g. stack overflow, concurrent map writes): mark the next case
        nxt = last + 1
        if nxt < len(cases):
            results[nxt] = {"index": nxt, "id": cases[nxt].get("id", nxt), "fatal": True, "stderr": err[-2000:]}
        start = nxt + 1
    shutil.rmtree(d, ignore_errors=True)
    return [results.get(i, {"index": i, "missing": True}) for i in range(len(cases))]


def hexs(b):
    if isinstance(b, str):
        b = b.encode("latin-1")
    return b.hex()


def e2e(src, text):
    return run_cases([{"op": "e2e", "src_hex": hexs(src), "text_hex": hexs(text)}])[0]


if __name__ == "__main__":
    import sys
    r = e2e(sys.argv[1], sys.argv[2] if len(sys.argv) > 2 else "")
    print(json.dumps(r, indent=1))
