#!/usr/bin/env python3
"""Regenerates MANIFEST.json from the table below (kept here so that the file is always valid)."""
import json, os
VERIF = os.path.dirname(os.path.dirname(os.path.abspath(__file__)))
props = [json.loads(l) for l in open(os.path.join(VERIF, "properties.jsonl"))]

BASE_NOTE = ("Trusted: Coq 8.16.1 kernel and vm_compute (no native_compute, no axioms: Print Assumptions is parsed on every run and must say "
             "'Closed under the global context'); extraction via ExtrOcamlBasic only; the hand-written Gallina model is tied to /repo by the "
             "correspondence check (Go harness built from the working tree vs extracted model/spec on the same cases), which is sampling except "
             "where marked exhaustive. ")

CHECKS = {
 "C04": dict(
   text="Theorems C04_windows_any_engine / C04_find_matches / C04_replace (Coq, closed): for ANY attempt function, text and window sizes, "
        "top/take n, skip s, skip s take t and last n (n>=1) of the model's findMatches are firstn/skipn slices of the `find all` sequence, "
        "matches unchanged incl. MatchNumber. Tie: bytecode + per-attempt + end-to-end correspondence of the model with the Go code, and the "
        "property itself checked on the implementation (window = slice of the implementation's own `all` result) for overlapping bodies x all "
        "short texts x every clause.",
   note="replace commands: `with` items reading totalMatches see the window size by design and are excluded; `last 0` is outside the property.",
   technique="Coq proof (induction on scan fuel, arbitrary attempt function) + differential correspondence model/implementation + exhaustive small-scope slicing oracle",
   ref="DESIGN.md 7 C04"),
}

def main():
    checks = []
    for p in props:
        pid = p["id"]
        if pid not in CHECKS:
            continue
        c = CHECKS[pid]
        checks.append({
            "property_id": pid,
            "quick_cmd": "./check %s --tier quick" % pid,
            "thorough_cmd": "./check %s --tier thorough" % pid,
            "evidence_file": "/verif/evidence/%s.json" % pid,
            "replay_cmd_template": "./check %s --replay {path}" % pid,
            "engine": "coq+corr",
            "level_claimed": {"category": "proof", "text": c["text"], "design_ref": c["ref"]},
            "level_note": BASE_NOTE + c["note"],
            "technique": c["technique"],
        })
    na = [{"property_id": p["id"], "reason": "check under construction in this round (model and correspondence exist; theorems being proved); will be claimed, see DESIGN.md 7"}
          for p in props if p["id"] not in CHECKS]
    m = {
        "version": 1,
        "setup_cmd": "./setup.sh",
        "hooks": {"guard": "verif",
                  "enable": "go build -tags verif in /verif/harness (module vharness; replace directives point at /repo/libvore/...)",
                  "baseline_off_cmd": "for m in $(cat /w/out/gomods.txt); do MF=$(cd /repo/$m && . /w/out/goenv.sh && gomodflag); (cd /repo/$m && go test $MF -json -vet=off -count=1 -timeout 25m ./...); done",
                  "source_commits": [],
                  "add_only": True},
        "engines": [{"name": "coq+corr", "path": "/verif/check", "serves_properties": sorted(CHECKS),
                     "kind_free_text": "Coq 8.16 development (coq/), extracted OCaml model (ocaml/), Go correspondence harness (harness/), Python driver (lib/)"}],
        "checks": checks,
        "not_applicable": na,
        "notes": "See DESIGN.md. Repaired defects and known findings: known_findings.json.",
    }
    json.dump(m, open(os.path.join(VERIF, "MANIFEST.json"), "w"), indent=1)

if __name__ == "__main__":
    main()
