#!/usr/bin/env python3
"""Regenerates MANIFEST.json from the table below (kept here so that the file is always valid)."""
import json, os
VERIF = os.path.dirname(os.path.dirname(os.path.abspath(__file__)))
props = [json.loads(l) for l in open(os.path.join(VERIF, "properties.jsonl"))]

BASE_NOTE = ("Trusted: Coq 8.16.1 kernel and vm_compute (no native_compute, no axioms: Print Assumptions is parsed on every run and must say "
             "'Closed under the global context'); extraction via ExtrOcamlBasic only; the hand-written Gallina model is tied to /repo by the "
             "correspondence check (Go harness built from the working tree vs extracted model/spec on the same cases), which is sampling except "
             "where marked exhaustive. ")

CHECKS = {
 "C01": dict(
   text="Theorems (Coq, closed under the global context): C01_vm_refines_sem - for every resolved pattern, text and start state the VM reaches exactly the "
        "specification's outcomes in priority order with all stacks restored, crash-free (mutual rule induction over the ordered-outcomes semantics Spec/Sem.v: atoms, "
        "in/not in, greedy and fewest loops with zero-width rejection, alternation, captures, back-references, inline subroutines, calls incl. guarded recursion, stored "
        "patterns with predicates); C01_attempt - an attempt of a whole command yields the FIRST outcome or FAILED; C01_find_all - `find all` = leftmost non-overlapping "
        "non-empty scan of the specification with Value = text[Start:End], bindings and consecutive numbers; C01_oracle_sound; C01_generated_patterns_well_formed - the theorems' hypothesis loop_ok holds for every pattern the generator resolves in every program (loop ids are fresh numbers of its supply), given only that `in` lists are non-empty, which C01_well_formed_from_any_source proves of every tree the parser returns (for every source text); C01_unrolling_preserves_meaning - the generator's unrolled form (m copies of "
        "the body, then a loop of 0..n-m iterations, nothing when m = n) means the bounded repetition in the specification, for every body whose outcomes always consume something; C01_outcomes_are_the_language / C01_no_outcome_iff_no_word / C01_local_atoms - "
        "the end positions of the specification's outcomes are EXACTLY the words of the textbook language of the pattern (Spec/Lang.v: concatenation, union, bounded iteration of non-empty words, grammar rules for subroutines; no positions or priorities): soundness and completeness of the backtracking semantics, recursion included, for patterns without back-references, predicates, named loops and zero-width atoms; C01_named_loops_same_spans - for patterns without back-references the VM runs of a pattern and of its name-erased form proceed in lock step, so named loops report the same matches (all fields but the variables) and the same crash / fuel verdict as the unnamed form the refinement theorem covers. Windows: C04. Tie to /repo: three-layer "
        "correspondence (bytecode equal up to loop-id renaming, model VM on the implementation's bytecode, end-to-end) plus implementation vs extracted specification, on "
        "generated programs and exhaustive small programs x texts.",
   note="Theorem scope: unnamed loops, `between m and n` with m<=n as written, ASCII caseless literals, hypothesis loop_ok (proved of the generator's output by C01_generated_patterns_well_formed) and existence of a "
        "specification derivation (total for call-free patterns by C10; guarded recursion whenever defined). Atom semantics (classes, anchors) are shared by model and spec and "
        "tied to the Go code only by the correspondence. Named loops: positions via C01_named_loops_same_spans (no back-references), variable maps via C03 + correspondence. The regular-subset clause (same spans as the equivalent regex) is covered for regex literals under C14.",
   technique="Coq proof (refinement of a backtracking VM to an ordered-outcomes semantics, unbounded) + differential correspondence model/spec/implementation",
   ref="DESIGN.md 7 C01"),
 "C02": dict(
   text="Theorems (closed): C02_vars_of_match - the variables of every reported match are the bindings of the specification's first outcome at that offset, built only along "
        "the successful derivation; C02_alternatives_isolated, C02_capture_binds (binding = text consumed on that path, latest wins), C02_backref_exact. C02_variables_have_the_named_loop_shape / C02_shape_meaning - for ARBITRARY bytecode every variable of every reported match is a string or an iteration table (keys exactly the decimal numbers 0..k, each once, entries variable maps with no name twice), nested to any depth. Tie: variables compared "
        "as sorted maps at all layers on templates that bind on an abandoned alternative/iteration/call and then fail. For ARBITRARY bytecode (named loops included): C02_checkpoints_immutable - a VM step only pushes checkpoints or resumes a saved core unchanged; C02_capture_writes_running_core_only.",
   note="Named-loop variable nests are modelled and compared but outside the theorem. The aliasing defect (shared environment map) was repaired in /repo (61584fb); the model is of the repaired code.",
   technique="Coq proof (corollaries of the refinement theorem and inversion lemmas on the semantics) + differential correspondence on abandoned-binding templates",
   ref="DESIGN.md 7 C02"),
 "C07": dict(
   text="Theorems (closed): C07_reader_refines_file - for EVERY file content (so every size: 0, 1, around every multiple of the buffer, larger), every buffer size > 0 and every history of "
        "(seek, read) operations the buffered reader answers exactly what the in-memory reader answers (the bytes, or '' when refused) and its refill loop never spins; C07_window_invariant "
        "(0<=min<=max<=|f|, buffer = f[min,max)). The VM model reads text only through that interface. Tie: ReaderFromFile vs ReaderFromString vs the file's bytes vs the model on generated "
        "histories at sizes k*2048+-1; RunFiles(NOTHING) vs Run on the same bytes.",
   note="os.File Read/ReadAt, Stat and the OS are modelled, not verified. Histories are (seek; read) pairs, which is how the engine reads (READ/READAT always seek first). Programs whose cost is "
        "cubic in the file size are run on small files only (performance is not part of the property). Repaired: 5ed415b (empty file), 586ff9a (zero-length read).",
   technique="Coq proof (refinement of the sliding-window reader to the identity reader, symbolic sizes) + differential reader histories and file-vs-string runs",
   ref="DESIGN.md 7 C07"),
 "C08": dict(
   text="Theorems (closed): C08_compile_total - for EVERY sequence of runes the modelled Compile (lexer state machine, token parser, Pratt expression parser, regex-literal sub-parser, semantic "
        "checks, generator) ends with a program or an error value: no index past the end of the token slice or of a regex literal (the Go panics are explicit PCrash results, proved unreachable) and "
        "no loop beyond a fuel that is linear in the source (|src|+2 tokens, 4|tokens|+8 nested parser calls, 4|regex|+8 regex-parser calls); C08_lex_total; C08_tokens_end_with_eof (the invariant "
        "the parser relies on); C08_regex_total; C08_no_partial_tree; C08_refuted_code_size_not_bounded_by_source_length (the model's code size is not bounded by the source length: the known finding K25 as a theorem). Tie: token stream (ast.VerifLex hook) and syntax tree / error class of the implementation compared with the extracted model on "
        "corpus + generated programs x every prefix and one-token deletion/duplication/swap, token soups, random bytes, arbitrary regex bodies (non-ASCII included), process expressions cut short by every statement keyword, nesting to depth 3000; the implementation must return "
        "program xor printable error without panic, hang or 2 GB; every source also through libvore.Compile and, stored in a file, libvore.CompileFile. Tie by translation: /verif/lextab regenerates "
        "coq/Generated/LexGen.v from libvore/ast/lexer.go on every run (token types, lexer states, the final switch of getNextToken with fallthrough chains resolved, keyword and operator tables) and "
        "coq/Separate/LexTables.v proves the model's tables equal to them and every state to have a case (LexTables_final_switch, LexTables_keywords, LexTables_operators, LexTables_states, LexTables_token_types, LexTables_table_states).",
   note="The model reads runes; unicode classes are concrete for ASCII/Latin-1, so sources with other runes outside strings/comments/regex bodies, invalid UTF-8 and numbers above 6 digits are checked "
        "on the implementation only. 'Bounded memory': known finding K25 (loop counts are unrolled: compile cost grows with the product of nested minimum counts, `find all exactly 99999999 'a'` "
        "exhausts memory); the generator model is a total function but its output size is not bounded by the source length. Repaired by earlier fix commits: unterminated regex literal hang, "
        "token-index panics, regex-body index panics (see known_findings.json).",
   technique="Coq proof (Hoare-style 'safe' predicate over the fuelled parser model; mutual induction on fuel with progress measures) + differential correspondence of tokens and trees on mutated sources",
   ref="DESIGN.md 7 C08"),
 "C09": dict(
   text="Theorems (closed): C09_attempt_no_crash - wherever the specification is defined an attempt ends in SUCCESS or FAILED (every VM crash site is an explicit Crashed result "
        "of the model and is unreachable); C09_find_returns - for call-free, predicate-free patterns `find all` returns a match list on every text; C09_find_returns_when_defined; UNCONDITIONALLY: C09_well_formed_code_never_crashes - the code compiled from any well-formed resolved pattern never crashes the VM, for any command shape, text and step budget, whether or not the search terminates or the specification is defined (named loops, back-references, unguarded recursion included; continuation-passing step-indexed proof); C09_generated_patterns_well_formed - every pattern the generator resolves from any source text the parser accepts is well formed (calls go to subroutines sitting at that program counter inside the same pattern; `not in` sizes are non-negative), provided stored predicates do not crash; C09_accepted_programs_never_crash - the two combined, from source text to `find`; C09_run_never_crashes_unless_process_code_does - the whole of Run (all commands, replacers, transforms) on every accepted program never crashes unless its process code (predicates, transforms) crashes by itself; the full statement (process code included) is false of the faithful model: C09_refuted_division_by_zero and C09_refuted_branch_dependent_type exhibit accepted programs that crash (the known findings K23, K24, by vm_compute). "
        "Tie: generated + corpus programs on every prefix of texts and the empty text, byte strings with truncated/stray UTF-8 at every distance from the end, every environment name x operator x operand type in transforms and predicates; any panic/hang of Run on an accepted program is reported.",
   note="Known findings (printed, not failed): K23 integer division by zero in process code; K24 a process variable whose static type depends on the branch taken. Process-code safety is the "
        "checker's business (C12). RunFiles/reader side: C06/C07.",
   technique="Coq proof (crash-freedom built into the refinement theorem) + differential correspondence with crash classes",
   ref="DESIGN.md 7 C09"),
 "C10": dict(
   text="Theorems (closed): C10_spec_total - the ordered-outcomes semantics is total on call-free patterns (inner induction on |text|-position; the zero-width rejection is what makes "
        "a continued iteration consume); C10_find_terminates - hence the VM's `find all` returns within a finite step budget on every text; C10_spec_total_guarded_recursion - the semantics is total on every pattern whose calls go to subroutines in whose bodies each call sits after something that always consumes input (guarded recursion), "
        "which with C09_find_returns_when_defined gives termination of the VM there too; C10_find_decided_guarded_recursion - for such patterns the VM's `find all` returns and returns the specification's scan, with no derivation assumed; C10_find_terminates_named_loops - named loops without back-references terminate like their erased form; C10_find_terminates_with_predicates - call-free patterns whose subroutines carry predicates terminate whenever each predicate's process code returns a value on every match text. Tie: exhaustive nullable programs to "
        "depth 3 x all short texts must return whenever the model does.",
   note="Guardedness is stated semantically for the guard (all its outcomes consume) and syntactically for the position of the call; unnamed loops and predicate-free subroutines as in the call-free theorem. "
        "Exponential backtracking is termination; cases where the model exceeds its own step bound are reported as 'both expensive', not as hangs.",
   technique="Coq proof (well-founded measure on remaining text) + exhaustive small-scope enumeration of nullable loop nests",
   ref="DESIGN.md 7 C10"),
 "C11": dict(
   text="Theorems (closed): C11_eval_binop_table - for every operator and ALL operand values whose types form a row of the documented table (typed in row by row in Spec/ProcSpec.v) the evaluator "
        "returns the table's typed operation on the coerced operands with the row's result type, or the division-by-zero panic for / % with zero divisor and nothing else; C11_outside_table; "
        "C11_unops; C11_atoi_itoa (decimal rendering/parsing inverse on int64); C11_precedence_roundtrip - operators bind as documented (and/or < == != < comparisons < + - < * / % < unary) and "
        "associate to the left: for EVERY expression tree and EVERY way of writing it with parentheses at least where that reading needs them (minimal, full, anything in between, redundant ones) "
        "the Pratt parser returns exactly that tree and consumes all tokens. Tie: exhaustive operators x boundary values of the three types through a transform and a predicate against an "
        "independent Python transcription of the table; expression trees to depth 4 in minimal and full parenthesisation must parse to the same tree on the implementation; the parser model is "
        "compared with the implementation's trees on every front-end source (CORR-PARSE).",
   note="The table rows '_number_ op number' are read as 'string op number' (what the checker accepts). Known finding K23 (division by zero). Repaired: 8e72253 (number ==/!=), 68ede24 (bool "
        "comparisons). The precedence theorem is about token lists; that expression tokens are what the lexer produces is C15's one-token-per-element theorem.",
   technique="Coq proof (case analysis on operator x operand types, values universally quantified; continuation-passing induction over the ways of writing an expression) + exhaustive boundary-value differential against an independent table",
   ref="DESIGN.md 7 C11"),
 "C12": dict(
   text="Theorems (closed): C12_check_expr_iff / C12_check_expr_type - the checker's answer on expressions is the declarative typing over the documented table (accept iff well typed, with that "
        "type); C12_check_stmts_iff - the checker accepts a statement list exactly when the declarative rules do (if-condition boolean, predicate returns boolean, transform returns string or "
        "number, break/continue only inside loop incl. nested loops) and leaves the same type environment; C12_check_sound - a well-typed expression in an agreeing environment never meets an "
        "undefined operation (only division by zero can fail). Tie: every (operator,type,type) cell accept/reject against the Python table; statement shapes in both contexts against the model; "
        "accepted programs are executed.",
   note="Soundness is stated for expressions; statement-level preservation holds when each variable keeps one type - otherwise the known finding K24 (flow-insensitive checker; includes variables "
        "assigned on one branch only). Repaired: 8b55f78 (nested loop break).",
   technique="Coq proof (induction on expressions/statements, mutual scheme; checker = declarative rules) + exhaustive cell enumeration",
   ref="DESIGN.md 7 C12"),
 "C13": dict(
   text="Theorems (closed): C13_gen_relocate - laying a stored pattern out d pcs further = adjust() on every stored instruction (subroutine ids move with call targets, no aliasing); "
        "C13_relocation_preserves_meaning - the relocated pattern has exactly the outcomes it had (the subroutine table moving with it); C13_loop_ids_irrelevant - patterns of the same shape, "
        "differing only in (random) loop ids, mean the same; "
        "C13_transparent_inline / C13_transparent_call - {B}=s in place and a call of s mean B in the specification, so by C01 all forms give the same matches; C13_run_concat - a "
        "multi-command result is the concatenation of its commands' results. Tie: written-out vs inline+calls vs set..to pattern sources must agree on the implementation; per-command "
        "runs vs whole run; compile-twice/run-twice histories; bytecode unchanged by running.",
   note="Determinism of compile and run is immediate for the model (functions); for the implementation it is checked on histories (math/rand loop ids are renamed canonically). "
        "The model's generator is resolve+compile (Model/Gen.v, Model/Rx.v); its equality with the Go generator is checked by bytecode comparison on every case.",
   technique="Coq proof (relocation lemma by structural induction; transparency by inversion) + metamorphic/differential checks on the implementation",
   ref="DESIGN.md 7 C13"),
 "C03": dict(
   text="Theorems (closed), for ARBITRARY bytecode (not only generated code: named loops, regex literals, replace commands included), every text and window: C03_step_invariant - "
        "every core the VM holds, running or checkpointed, keeps position inside the text, matched = text[start..pos), line/column in step; C03_matches_located - the result list is "
        "a chain: increasing, non-overlapping, each match with Start<End<=|text|, Value=text[Start:End], Line = 1+newlines before the offset, Column = 1-based byte column, at both ends; "
        "C03_numbers; C03_replace_same_matches. Tie: all fields of every match compared with the model and with closed forms recomputed in Python from the text alone, on multi-line texts. C03_variables_are_substrings - in the specification every string variable of every outcome of an attempt started at off is text[a,b) with off <= a <= b <= end: a substring of the match value; C03_variables_are_substrings_any_bytecode - at the level of the VM, for arbitrary bytecode, named loops and their nested iteration maps included: every string variable at any depth of every reported match is a substring of its Value (C03_esub_meaning spells the predicate out).",
   note="Column claim: ASCII texts (the implementation counts runes per consumed chunk, the model bytes); on texts with a byte >= 0x80 the correspondence compares offsets, lines, values and variables and leaves the two column fields out.",
   technique="Coq proof (step invariant + induction over the scan, arbitrary programs) + independent closed-form oracle on the implementation",
   ref="DESIGN.md 7 C03"),
 "C05": dict(
   text="Theorems (closed): C05_replacement_concat - the replacement of a match is the concatenation, in order, of item_text of its items (string: itself; name: the text of the capture or "
        "built-in of THIS match, nothing if unbound; transform: its result with this match as `match`), everything else unchanged; C05_replace_find_same. Tie: replacements recomputed in "
        "Python from the implementation's own match fields for non-transform items, model comparison for transforms, replace vs find with the same body.",
   note="`totalMatches` is the number of matches of the command's window (by design). A replace with no contributing item has no replacement value (None ~ '').",
   technique="Coq proof (fold-to-concat induction over the replacer program) + differential/metamorphic checks",
   ref="DESIGN.md 7 C05"),
 "C06": dict(
   text="Theorems (closed): C06_splice_correct - for every ordered, located match list the copy loop of searchReplace over a growable writer yields gap0++r0++gap1++...++tail (any lengths, "
        "zero matches); C06_replace_output - the model's match lists always satisfy that hypothesis (C03); C06_modes_effect - over the file-system model NOTHING and find commands change "
        "nothing, NEW changes only <file>.vored, OVERWRITE only the file, to exactly the splice. Tie: real scratch directories, whole-directory snapshots before/after RunFiles x 3 modes x "
        "{find, replace} x contents x stale .vored x several files.",
   note="The OS file API (O_TRUNC open, positional writes), os.ReadFile and the buffered reader are modelled, not verified (reader: C07); the FS part of the theorem is near-definitional and its "
        "weight lies in the directory-snapshot correspondence. Multi-command OVERWRITE chains are checked one command at a time.",
   technique="Coq proof (loop invariant over the match list; finite-map file system) + directory snapshot differential",
   ref="DESIGN.md 7 C06"),
 "C14": dict(
   text="Theorems (closed): C14_regex_roundtrip - for EVERY well-formed regular expression of the supported subset, given as a syntax tree (literal and escaped characters, `.`, \\d \\D \\s \\S, bracket "
        "classes with ranges and negation, plain / non-capturing / named groups, * + ? {m} {m,} {m,n} and lazy forms on any atom or group, alternation of single items, ^ $, numbered and named "
        "back-references, nesting without bound), the regex sub-parser applied to its written form returns exactly the pattern tree the expression denotes (tr_disj: captures _N numbered by opening "
        "parenthesis, loops with those bounds, lazy = fewest, `.` = not newline, class = in / not in); C14_quantifier_means_bounded_repetition - whatever the generator emits for a quantified reference-free tree (m unrolled copies + a loop of 0..n-m) has exactly the outcomes of `between m and n repetitions` of the body's pattern, for bodies that always consume; C14_regex_parser_total; C14_regex_denotes_its_language - for every regular expression proper (no anchors, no back-references, ASCII, non-nullable quantified atoms, m <= n) whatever the generator resolves from its denotation is in the scope of the language theorem and denotes exactly the textbook language of the expression (Spec/RegexLang.v); C14_regex_finds_its_language - written form -> parser -> generator -> specification: outcomes end exactly at the words of the expression; C14_find_all_reports_words - ... -> VM with nothing assumed: on every text `find all` returns consecutively numbered located non-empty matches each of which is a word of the expression; C14_outcomes_in_backtracking_order - the ordered outcomes of the resolved pattern end at the positions, and in the order, in which a conventional backtracking engine finds them (Spec/RegexOrder.v: the order written on the regex syntax alone - concatenation = for every end of the head in order every end of the rest, l|r = all of l before r, greedy = one more iteration before stopping, lazy = stopping before iterating); C14_find_all_is_the_backtracking_scan - written form -> parser -> generator -> VM: `find all` returns exactly the scan of that specification (leftmost start, first end in backtracking order, empty matches skipped, resumed at the end of each match); C14_backtracking_order_is_functional - that specification determines one list per expression, text and position. With C01 (the VM finds what the specification of a pattern tree "
        "defines) the literal finds what its denotation finds. Tie: generated regexes of the subset x short ASCII texts: spans in order and group bindings of `find all @/re/` vs Python's re (a "
        "backtracking engine with back-references) applied position by position; the same programs through the model VM and the extracted specification; the implementation's tree vs the model parser's.",
   note="Semantic side: WHICH spans can be found is proved against the textbook language for the regular expressions proper; WHICH of them comes first (leftmost alternative, greedy longest, lazy shortest) is proved against a backtracking-order specification written on the regex syntax (the whole subset except back-references, ^ and $ included, the proviso as syntactic non-nullability; non-negated bracket classes that list no byte twice: an overlapping class makes the engine's alternatives repeat a position, which does not change what is first) and additionally compared with Python re; anchors are outside the language theorems, back-references outside both (round trip + quantifier theorem + differential). "
        "vore's `|` binds tighter than concatenation, so alternations are "
        "generated as the whole content of a group or of the regex; repeated bodies cannot match the empty string (as the property says). Repaired: f46c42b (a capturing group under a quantifier "
        "with minimum >= 1 was rejected: name clash); earlier fix commits repaired the regex-body index panics and group numbering by opening parenthesis.",
   technique="Coq proof (parse-after-print round trip, language and backtracking-order soundness by mutual induction over the regex syntax, composed with the VM refinement) + differential against an independent backtracking regex engine",
   ref="DESIGN.md 7 C14"),
 "C15": dict(
   text="Theorems (closed): C15_one_token_per_element - for EVERY sequence of lexical elements (punctuation, words, numbers, string literals in any documented spelling, regex literals, maximal blank "
        "runs, line comments, block comments) satisfying only the no-glue conditions (a word not directly followed by a letter/digit, `=` `<` `>` not by `=`, `-` not by `-`, a line comment ended by a "
        "newline or the end of input) the lexer yields exactly one token per element, then EOF; C15_layout_invariance - two layouts of the same tokens, ANY separators between ANY two tokens or none "
        "where they do not glue, give the same parse_source result (accept/reject and tree); C15_keyword_spelling_irrelevant - the parser reads a lexeme only after checking the token is an identifier, "
        "number, string or regex literal (parse ts = parse ts' whenever types agree and those lexemes agree); C15_layout_and_case_invariance - both together through lexer, parser and generator (same "
        "bytecode). Tie: corpus + generated programs x every gap x 9 separators (inserted and replacing) x compaction x keyword case variants on the implementation: accept/reject, printed tree and Run "
        "results equal the original's; every variant's tokens and tree compared with the model. The keyword table (which spellings are keywords of which kind) is tied by translation: "
        "coq/Generated/LexGen.v is regenerated from libvore/ast/lexer.go on every run and coq/Separate/LexTables.v proves the model's keyword, operator and final-switch tables equal to the source's.",
   note="The theorem quantifies over element sequences; that every accepted source IS such a sequence (its own tokens and separators) is not proved (the converse direction), it is exercised by the "
        "correspondence. `---` is a comment by maximal munch (like `ab` is one word): a comment directly after a `-` token needs a blank; the check inserts one there. Repaired by earlier fix commits: "
        "comments inside transform expressions, blank before a comma in an `in` list, `( )` (parse() now drops WS/COMMENT tokens once).",
   technique="Coq proof (per-element lexer lemmas composed by induction over the element stream; relational erasure argument through the whole parser) + metamorphic differential on the implementation",
   ref="DESIGN.md 7 C15"),
 "C16": dict(
   text="Theorems (closed): C16_string_literal_denotes - for EVERY sequence of pieces (raw character, \\n \\t \\r \\a \\b \\f \\v, \\xHH, backslash before any other character, \\x not followed by two hex "
        "digits) spelling an ASCII string, in either quote style, at any place of any source, the lexer yields ONE STRING token whose lexeme is exactly the denoted bytes and resumes right after the "
        "closing quote (an incomplete \\x keeps everything that follows); C16_literal_reaches_bytecode - that token becomes the literal instruction with those bytes, for every b; "
        "C16_literal_matches_exactly - the literal matches the text b and no other text of that length. Tie by translation: coq/Generated/LexGen.v is regenerated from libvore/ast/lexer.go on every run (getEscapedRune's if-chain, keyword/operator tables, final switch) and coq/Separate/LexTables.v proves the model's escape table and lexer tables equal to them (LexTables_escapes). Tie: every byte 0x01..0x7f x every spelling x both quote styles (exhaustive), \\x followed by "
        "every pair of ASCII characters (thorough tier), random mixed spellings: `find all <literal>` on b and near misses on the implementation; token lexemes compared with the model.",
   note="ASCII, as the property says (a \\xHH above 0x7f is written by the lexer as the UTF-8 encoding of that code point: modelled, outside the claim). Repaired: 471eda5 (backslash before a blank, tab "
        "or newline was an 'Unending string' error); earlier fix commits repaired the incomplete \\x escape that dropped a character.",
   technique="Coq proof (induction over the spelled pieces against the lexer state machine, arbitrary surrounding source) + exhaustive per-byte differential on the implementation",
   ref="DESIGN.md 7 C16"),
 "C17": dict(
   text="Theorems (closed): C17_match_json_fields - the object of a match holds, under the documented keys, exactly the in-memory match (filename, matchNumber, offset/line/column as {start,end}, "
        "value, variables nested for named loops, replacement exactly when present); C17_one_object_per_match; C17_compact_parses_back / C17_indented_parses_back - a plain recursive-descent JSON "
        "reader (objects, arrays, strings with escapes, integers, blanks between tokens; raw control characters rejected) reads the compact and the tab-indented rendering of EVERY document back as "
        "exactly that document (any nesting, quotes, backslashes, control characters, <>&, bytes >= 0x80), so both renderings are valid and are the same document; C17_any_layout_parses_back. "
        "C17_variables_are_well_formed_objects - what the `variables` member can be, for arbitrary bytecode (no name twice; strings or iteration tables of variable maps). Tie: Json() and FormattedJson() of the implementation must parse (Python json), be equal documents and decode to the in-memory matches on result lists {empty, one, many} x {find, replace} "
        "x {flat, nested variables} over hostile texts; byte-for-byte comparison with the model's renderers on ASCII texts.",
   note="encoding/json itself is modelled by the two renderers of Model/Json.v (validated byte for byte on ASCII texts; on invalid UTF-8 Go writes U+FFFD, which is outside the model: there validity "
        "and decoding are decided by Python json only). The JSON reader of the theorem is the yardstick for validity; it is deliberately small (no floats, no exponent, no true/false/null: result "
        "documents contain none). Repaired: 03d01b5 (Json() panicked on every call).",
   technique="Coq proof (document model; print/parse round trip of both renderers via a layout-independent rendering relation) + differential validation against an independent JSON implementation",
   ref="DESIGN.md 7 C17"),
 "C18": dict(
   text="Theorems (closed): C18_cli_table - on the FULL cross product of -com/-src x -files x -json x -formatted-json x -json-file x -formatted-json-file x mode {unset,NEW,NOTHING,OVERWRITE,bogus} "
        "x -no-output (enumeration proved complete: C18_cross_product_complete) the decision function of main.go rejects exactly the undocumented invocations and otherwise runs with the given "
        "mode (NEW by default), at most one document of the requested kind on stdout, none under -no-output, JSON files written exactly when named. Tie: the BUILT BINARY over the same cross "
        "product x {find, replace, failing program} x {one file, several, glob, none matching}: exit status, one-JSON-document stdout equal to the library's result, JSON files, and the directory "
        "snapshot against the library (complete in the thorough tier, stratified sample in the quick tier).",
   note="Process exit codes, os.OpenFile flags, stray prints and the flag package are runtime facts the model cannot exhibit: they are observed on the binary. -no-output is read as suppressing the "
        "JSON files too (main.go returns before writing them). With zero matches the tool prints a human message, which the property does not constrain. Repaired: 03d01b5, 58fc5e5, f3a9d0f, 17e71f7.",
   technique="Coq proof (finite sweep by vm_compute lifted with forallb_forall over a provably complete enumeration) + exhaustive black-box runs of the built binary",
   ref="DESIGN.md 7 C18"),
 "C19": dict(
   text="Theorems (closed): C19_disjoint_noninterference / C19_results_as_alone - in EVERY interleaving of atomic actions, threads with pairwise disjoint footprints (except mutex-protected "
        "locations used only inside critical sections that reset them first) compute exactly what they compute alone; C19_footprint_disjoint - the hypothesis for vore's source AS IT IS NOW: "
        "Generated/Footprint.v is regenerated from /repo by the scanner on every run (package-level variables, readers/writers reachable from Compile/CompileFile/Run/RunFiles outside a mutex, "
        "engine writes through bytecode/ast values, calls and assignments that reset process-wide state of a library package such as math/rand's global source, from which the generator draws loop ids) "
        "and the theorem is re-checked against it. Search for a failing schedule: the -race build of the harness (goroutines compiling - through the internal pipeline and through libvore.Compile in turn - with and "
        "without regex groups and nested loops, and running shared/private programs), bytecode and results compared with sequential ones.",
   note="Partial by nature: the Go memory model and scheduler are not in the model, the scanner is a trusted syntactic translator, and a race is only exhibited dynamically. The compiled property "
        "file is coq/Separate/C19.v (kept out of the main build because it depends on the generated file). Repaired: b6af011 (capture_group_number under a mutex).",
   technique="Coq proof (noninterference over all interleavings) with the hypothesis regenerated from the source by a translator on every run + race-detector harness",
   ref="DESIGN.md 7 C19"),
 "C20": dict(
   text="Theorems (closed): C20_path_matches_iff - the segment matcher (the Go loop: greedy, backtracking to the last star) decides exactly '* = any run of characters, every other character "
        "itself' for ALL patterns and names, any number of stars (invariant: alternatives of an earlier star are subsumed when a later star is reached); C20_path_matches_total - its loop never "
        "runs out of fuel (potential function); C20_file_list_exact - for every finite tree with unique names per directory and every pattern whose directory segments are not all stars, the "
        "file list is exactly the regular files whose path matches segment by segment (none missing, none extra, no directories); C20_file_list_no_duplicates - when no name contains the separator, no path is listed twice. Tie: exhaustive patterns x names over {a,b,.,*} on a real "
        "directory, generated trees with relative and absolute patterns, against an independent Python matcher and the model.",
   note="Excluded as the property says: all-star directory segments and ./.. segments. os.ReadDir is modelled as the children list (unique names, no separator inside a name). Result paths are compared after filepath.Clean (absolute patterns yield //tmp/...). Repaired: 68c9543 (star matcher), f3a9d0f (debug print).",
   technique="Coq proof (loop invariant for greedy star matching + fuel potential; induction over path segments) + exhaustive small-scope and generated-tree differential",
   ref="DESIGN.md 7 C20"),
 "C04": dict(
   text="Theorems C04_windows_any_engine / C04_find_matches / C04_replace / C04_windows_compose (Coq, closed): for ANY attempt function, text and window sizes, "
        "top/take n, skip s, skip s take t and last n (n>=1) of the model's findMatches are firstn/skipn slices of the `find all` sequence, "
        "matches unchanged incl. MatchNumber. Tie: bytecode + per-attempt + end-to-end correspondence of the model with the Go code, and the "
        "property itself checked on the implementation (window = slice of the implementation's own `all` result) for overlapping bodies x all "
        "short texts x every clause.",
   note="replace commands: `with` items reading totalMatches see the window size by design and are excluded; `last 0` is outside the property.",
   technique="Coq proof (induction on scan fuel, arbitrary attempt function) + differential correspondence model/implementation + exhaustive small-scope slicing oracle",
   ref="DESIGN.md 7 C04"),
}

def main():
    checks = []
    for p in props:
        pid = p["id"]
        if pid not in CHECKS:
            continue
        c = CHECKS[pid]
        checks.append({
            "property_id": pid,
            "quick_cmd": "./check %s --tier quick" % pid,
            "thorough_cmd": "./check %s --tier thorough" % pid,
            "evidence_file": "/verif/evidence/%s.json" % pid,
            "replay_cmd_template": "./check %s --replay {path}" % pid,
            "engine": "coq+corr",
            "level_claimed": {"category": "proof", "text": c["text"], "design_ref": c["ref"]},
            "level_note": BASE_NOTE + c["note"],
            "technique": c["technique"],
        })
    na = [{"property_id": p["id"], "reason": "not claimed"} for p in props if p["id"] not in CHECKS]
    m = {
        "version": 1,
        "setup_cmd": "./setup.sh",
        "hooks": {"guard": "verif",
                  "enable": "go build -tags verif in /verif/harness (module vharness; replace directives point at /repo/libvore/...)",
                  "baseline_off_cmd": "for m in $(cat /w/out/gomods.txt); do MF=$(cd /repo/$m && . /w/out/goenv.sh && gomodflag); (cd /repo/$m && go test $MF -json -vet=off -count=1 -timeout 25m ./...); done",
                  "source_commits": ["34fba41"],
                  "add_only": True},
        "engines": [{"name": "coq+corr", "path": "/verif/check", "serves_properties": sorted(CHECKS),
                     "kind_free_text": "Coq 8.16 development (coq/), extracted OCaml model (ocaml/), Go correspondence harness (harness/), Python driver (lib/)"}],
        "checks": checks,
        "not_applicable": na,
        "notes": "See DESIGN.md. Repaired defects and known findings: known_findings.json.",
    }
    json.dump(m, open(os.path.join(VERIF, "MANIFEST.json"), "w"), indent=1)

if __name__ == "__main__":
    main()
