"""Random generators of vore programs (source text) and input texts.

One random.Random instance drives every choice, so a (seed, index) pair replays exactly.
Programs are mostly valid; the weights aim at the interactions the properties name: loops inside
alternations inside calls, captures on abandoned paths, relocated globals referenced several times."""
import random

ALPHA = "abc"
CLASSES = ["any", "whitespace", "digit", "upper", "lower", "letter"]
ANCHORS = ["line start", "line end", "file start", "file end", "word start", "word end"]
WHOLES = ["whole line", "whole word", "whole file"]


def q(s):
    """vore string literal for a python str of ASCII chars"""
    out = []
    for ch in s:
        o = ord(ch)
        if ch == "'":
            out.append("\\'")
        elif ch == "\\":
            out.append("\\\\")
        elif ch == "\n":
            out.append("\\n")
        elif ch == "\t":
            out.append("\\t")
        elif ch == "\r":
            out.append("\\r")
        elif o < 32 or o > 126:
            out.append("\\x%02x" % o)
        else:
            out.append(ch)
    return "'" + "".join(out) + "'"


class ProgGen:
    def __init__(self, rng, alpha=ALPHA, max_depth=3, allow_named=True, allow_pred=True, allow_whole=True,
                 allow_backref=True, allow_sub=True, allow_global=True, allow_anchor=True, allow_notin=True, allow_capture=True):
        self.r = rng
        self.alpha = alpha
        self.max_depth = max_depth
        self.allow_named = allow_named
        self.allow_pred = allow_pred
        self.allow_whole = allow_whole
        self.allow_backref = allow_backref
        self.allow_sub = allow_sub
        self.allow_global = allow_global
        self.allow_anchor = allow_anchor
        self.allow_notin = allow_notin
        self.allow_capture = allow_capture
        self.features = set()
        self.globals = []        # names of set..to pattern
        self.transforms = []
        self.reset_cmd()

    def reset_cmd(self):
        self.captures = []       # capture names already bound (textually before)
        self.subs = []           # subroutine names defined (textually before or enclosing)
        self.used_names = set()
        self.loopnames = 0
        self.big_used = False

    # ---- pieces ----
    def word(self, lo=1, hi=2):
        n = self.r.randint(lo, hi)
        return "".join(self.r.choice(self.alpha) for _ in range(n))

    def string(self):
        r = self.r.random()
        if r < 0.04:
            self.features.add("empty-literal")
            return "''"
        if r < 0.10:
            return q(self.r.choice(["\n", " ", "a\n", "1", "a1"]))
        return q(self.word())

    def fresh(self, base):
        for i in range(1, 50):
            n = "%s%d" % (base, i)
            if n not in self.used_names:
                self.used_names.add(n)
                return n
        return base + "z"

    def solid(self):
        """a literal that consumes at least one byte when it matches"""
        r = self.r.random()
        if r < 0.6:
            return q(self.word())
        if r < 0.8:
            return self.r.choice(["any", "digit", "letter", "lower", "upper", "whitespace"])
        if r < 0.9:
            return "not " + q(self.word(1, 1))
        return "caseless " + q(self.word().upper() if self.r.random() < 0.5 else self.word())

    def lit(self, d):
        r = self.r.random()
        if r < 0.38:
            return self.string()
        if r < 0.44:
            self.features.add("not-string")
            return "not " + self.string()
        if r < 0.49:
            self.features.add("caseless")
            w = self.word()
            return "caseless " + q(w.upper() if self.r.random() < 0.5 else w)
        if r < 0.60:
            self.features.add("class")
            c = self.r.choice(CLASSES)
            return ("not " if self.r.random() < 0.3 else "") + c
        if r < 0.67 and self.allow_anchor:
            self.features.add("anchor")
            c = self.r.choice(ANCHORS)
            return ("not " if self.r.random() < 0.25 else "") + c
        if r < 0.69 and self.allow_whole:
            self.features.add("whole")
            c = self.r.choice(WHOLES)
            return ("not " if self.r.random() < 0.2 else "") + c
        if r < 0.76 and self.allow_backref and self.captures:
            self.features.add("backref")
            return self.r.choice(self.captures)
        if r < 0.82 and self.allow_sub and self.subs:
            self.features.add("call")
            return self.r.choice(self.subs)
        if r < 0.88 and self.allow_global and self.globals:
            self.features.add("global-ref")
            return self.r.choice(self.globals)
        if d < self.max_depth:
            self.features.add("group")
            return "(" + self.exprs(d + 1) + ")"
        return self.string()

    def listable(self):
        r = self.r.random()
        if r < 0.5:
            return q(self.word(1, 2))
        if r < 0.7:
            a, b = sorted([self.r.choice("abcd159"), self.r.choice("abcd159")])
            if self.r.random() < 0.1:
                a, b = b, a
            self.features.add("range")
            return "%s to %s" % (q(a), q(b))
        if r < 0.75:
            return "caseless " + q(self.word(1, 2).upper())
        return self.r.choice(CLASSES)

    def inlist(self):
        n = self.r.randint(1, 4)
        if self.r.random() < 0.3:
            # items that are prefixes of each other, in any order: which one wins depends on the ORDER of the list only
            w = self.word(1, 1)
            fam = [w, w + self.r.choice(self.alpha), w + self.r.choice(self.alpha) + self.r.choice(self.alpha), self.word(1, 2)]
            self.r.shuffle(fam)
            items = ", ".join(q(x) for x in fam[:max(n, 3)])
            self.features.add("in-prefix-family")
        else:
            items = ", ".join(self.listable() for _ in range(n))
        if self.allow_notin and self.r.random() < 0.4:
            self.features.add("not-in")
            return "not in " + items
        self.features.add("in")
        return "in " + items

    def count(self, small):
        """a loop count: mostly small; now and then a large one (leaf loops only: copies multiply when nested)"""
        if self.r.random() < 0.06 and not self.big_used:
            self.big_used = True
            self.features.add("large-count")
            return self.r.choice([5, 8, 9, 10, 12])
        return self.r.choice(small)

    def loop(self, d):
        body = self.loop_body(d)
        k = self.r.random()
        few = " fewest" if self.r.random() < 0.35 else ""
        if few:
            self.features.add("fewest")
        named = ""
        if k < 0.30:
            self.features.add("maybe")
            return "maybe %s%s" % (body, few)
        if k < 0.55:
            n = self.count([0, 0, 1, 1, 2, 3])
            self.features.add("at-least")
            if self.allow_named and self.r.random() < 0.08:
                self.loopnames += 1
                named = " named n%d" % self.loopnames
                self.features.add("named-loop")
            return "at least %d %s%s%s" % (n, body, few, named)
        if k < 0.70:
            n = self.r.choice([0, 1, 2, 3])
            self.features.add("at-most")
            return "at most %d %s%s" % (n, body, few)
        if k < 0.88:
            m = self.count([0, 1, 1, 2])
            n = m + self.r.choice([0, 1, 2])
            if self.r.random() < 0.04:
                m, n = n + 1, m
                self.features.add("between-inverted")
            self.features.add("between")
            if self.allow_named and self.r.random() < 0.06:
                self.loopnames += 1
                named = " named n%d" % self.loopnames
                self.features.add("named-loop")
            return "between %d and %d %s%s%s" % (m, n, body, few, named)
        n = self.count([0, 1, 2, 3])
        self.features.add("exactly")
        if self.allow_named and self.r.random() < 0.08:
            self.loopnames += 1
            named = " named n%d" % self.loopnames
            self.features.add("named-loop")
        return "exactly %d %s%s" % (n, body, named)

    def loop_body(self, d):
        r = self.r.random()
        if r < 0.35 or d >= self.max_depth:
            return self.solid() if self.r.random() < 0.7 else self.lit(d + 1)
        if r < 0.55:
            self.features.add("nested-loop")
            return "(" + self.loop(d + 1) + ")"
        if r < 0.7:
            return "(" + self.alt(d + 1) + ")"
        if r < 0.8:
            return self.inlist()
        return "(" + self.exprs(d + 1) + ")"

    def alt(self, d):
        n = self.r.choice([2, 2, 3])
        parts = []
        for _ in range(n):
            parts.append(self.lit(d))
        self.features.add("or")
        return " or ".join(parts)

    def capture(self, d):
        body = self.lit(d)
        if self.r.random() < 0.7 or not self.captures:
            nm = self.fresh("x")
        else:
            nm = self.r.choice(self.captures)   # rebinding: a name clash for the generator
            self.features.add("rebind")
        self.features.add("capture")
        s = "%s = %s" % (body, nm)
        if nm not in self.captures:
            self.captures.append(nm)
        return s

    def subroutine(self, d):
        nm = self.fresh("s")
        self.subs.append(nm)         # visible inside its own body (recursion)
        self.features.add("subroutine")
        head = self.solid()
        r = self.r.random()
        if r < 0.5:
            mid = "maybe %s" % nm
            self.features.add("recursion")
        elif r < 0.7:
            mid = "(%s or %s)" % (nm, q(self.word(1, 1)))
            self.features.add("recursion")
        else:
            mid = self.expr(d + 1) if d < self.max_depth else self.string()
        tail = self.lit(d + 1) if self.r.random() < 0.7 else ""
        return "{%s %s %s} = %s" % (head, mid, tail, nm)

    def expr(self, d):
        r = self.r.random()
        if r < 0.30:
            return self.lit(d)
        if r < 0.52:
            return self.loop(d)
        if r < 0.66:
            return self.alt(d)
        if r < 0.78 and self.allow_capture:
            return self.capture(d)
        if r < 0.88:
            return self.inlist()
        if r < 0.94 and self.allow_sub and d < self.max_depth:
            return self.subroutine(d)
        return self.lit(d)

    def exprs(self, d):
        n = self.r.choice([1, 1, 2, 2, 3, 4]) if d == 0 else self.r.choice([1, 2, 2, 3])
        return " ".join(self.expr(d) for _ in range(n))

    def amount(self):
        r = self.r.random()
        if r < 0.72:
            return "all"
        if r < 0.79:
            return "top %d" % self.r.randint(0, 3)
        if r < 0.86:
            return "take %d" % self.r.randint(0, 3)
        if r < 0.91:
            return "skip %d" % self.r.randint(0, 3)
        if r < 0.96:
            return "skip %d take %d" % (self.r.randint(0, 2), self.r.randint(0, 3))
        return "last %d" % self.r.randint(0, 3)

    def pexpr(self, d, want):
        """process expression of static type want in {'s','n','b'} (mostly)"""
        r = self.r.random()
        if want == "n":
            if d > 2 or r < 0.4:
                return self.r.choice(["matchLength", "1", "2", "0", "3", "10"])
            op = self.r.choice(["+", "-", "*", "/", "%"])
            rhs = self.pexpr(d + 1, "n")
            if op in "/%" and self.r.random() < 0.97:
                rhs = self.r.choice(["1", "2", "3", "7"])   # division by zero is a known finding: keep it rare
            return "(%s %s %s)" % (self.pexpr(d + 1, "n"), op, rhs)
        if want == "b":
            if d > 2 or r < 0.2:
                return self.r.choice(["true", "false"])
            if r < 0.6:
                op = self.r.choice(["==", "!=", "<", ">", "<=", ">="])
                t = self.r.choice("sn")
                return "(%s %s %s)" % (self.pexpr(d + 1, t), op, self.pexpr(d + 1, t))
            if r < 0.8:
                return "(%s %s %s)" % (self.pexpr(d + 1, "b"), self.r.choice(["and", "or"]), self.pexpr(d + 1, "b"))
            return "(not %s)" % self.pexpr(d + 1, "b")
        # string
        if d > 2 or r < 0.4:
            return self.r.choice(["match", q(self.word()), "match", "'7'"] + self.captures[:2])
        if r < 0.7:
            return "(%s + %s)" % (self.pexpr(d + 1, "s"), self.pexpr(d + 1, self.r.choice("sn")))
        if r < 0.85:
            return "(%s %s)" % (self.r.choice(["head", "tail"]), self.pexpr(d + 1, "s"))
        return "match"

    def predicate(self):
        self.features.add("predicate")
        r = self.r.random()
        if r < 0.45:
            return "begin return %s end" % self.pexpr(0, "b")
        if r < 0.8:
            return "begin if %s then return true end return %s end" % (self.pexpr(0, "b"), self.pexpr(1, "b"))
        return "begin if %s then return %s else return %s end end" % (self.pexpr(0, "b"), self.pexpr(1, "b"), self.pexpr(1, "b"))

    def transform(self):
        nm = "f%d" % (len(self.transforms) + 1)
        self.transforms.append(nm)
        self.features.add("transform")
        r = self.r.random()
        if r < 0.5:
            body = "return %s" % self.pexpr(0, self.r.choice("sn"))
        elif r < 0.7:
            body = "if %s then return %s end return %s" % (self.pexpr(0, "b"), self.pexpr(0, "s"), self.pexpr(0, "n"))
        elif r < 0.8:
            body = "if %s then set v to %s else set v to %s debug v end return v" % (self.pexpr(0, "b"), self.pexpr(0, "s"), self.pexpr(0, "s"))
        elif r < 0.9:
            body = "set i to 0 set acc to '' loop if i >= matchLength then break end set acc to acc + 'z' set i to i + 1 end return acc"
        else:
            body = ("set i to 0 set acc to '' loop set i to i + 1 if i > matchLength then break end if (i %% %d) == 0 then continue end set acc to acc + %s end return acc"
                    % (self.r.choice([2, 3]), self.r.choice(["'z'", "i", "match"])))
        return "set %s to transform %s end" % (nm, body)

    def command(self):
        self.reset_cmd()
        r = self.r.random()
        if r < 0.75 or not True:
            return "find %s %s" % (self.amount(), self.exprs(0))
        self.features.add("replace")
        body = self.exprs(0)
        items = []
        for _ in range(self.r.randint(0, 4)):
            k = self.r.random()
            if k < 0.35:
                items.append(q(self.word(0, 2)) if self.r.random() < 0.9 else "''")
            elif k < 0.55 and self.captures:
                items.append(self.r.choice(self.captures))
            elif k < 0.75:
                items.append(self.r.choice(["value", "matchNumber", "startOffset", "endOffset", "totalMatches",
                                            "lineNumber", "columnNumber", "filename"]))
            elif k < 0.9 and self.transforms:
                items.append(self.r.choice(self.transforms))
            else:
                items.append("undefinedname")
        return "replace %s %s with %s" % (self.amount(), body, " ".join(items))

    def program(self):
        self.features = set()
        self.globals = []
        self.transforms = []
        parts = []
        if self.allow_global:
            for _ in range(self.r.choice([0, 0, 0, 1, 1, 2])):
                self.reset_cmd()
                nm = "p%d" % (len(self.globals) + 1)
                body = self.exprs(1)
                pred = ""
                if self.allow_pred and self.r.random() < 0.3:
                    pred = " " + self.predicate()
                parts.append("set %s to pattern %s%s" % (nm, body, pred))
                self.globals.append(nm)
                self.features.add("global")
        for _ in range(self.r.choice([0, 0, 0, 1])):
            parts.append(self.transform())
        if self.r.random() < 0.05:
            # `set name to matches <command>`: a stored command (it is generated, it is not run)
            self.features.add("set-matches")
            parts.append("set m%d to matches %s" % (len(parts) + 1, self.command()))
        for _ in range(self.r.choice([1, 1, 1, 2, 3])):
            parts.append(self.command())
        return "\n".join(parts)


def gen_text(rng, alpha="abc", maxlen=12):
    """input text biased towards the small alphabet of the programs, with newlines, blanks, digits"""
    n = rng.choice([0, 1, 2, 3, 4, 5, 6, 8, 10, maxlen])
    pool = alpha * 4 + " \n1A" + alpha.upper()[:1]
    if rng.random() < 0.15:
        pool += "\r\t_-9Zz"
    s = []
    while len(s) < n:
        if s and rng.random() < 0.25:
            # repeat a previous chunk: helps back-references and loops
            k = rng.randint(1, min(3, len(s)))
            st = rng.randint(0, len(s) - k)
            s.extend(s[st:st + k])
        else:
            s.append(rng.choice(pool))
    return "".join(s[:n])
