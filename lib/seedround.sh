#!/bin/bash
# seedround.sh <prefix> : run seedtest for every /tmp/<prefix>-Cxx/SEED/1/patch.diff against its own property's quick check
pre="$1"
for i in $(seq -w 1 20); do
  d=/tmp/$pre-C$i/SEED/1
  [ -f $d/patch.diff ] || { echo "=== C$i: no patch"; continue; }
  echo "=== C$i"
  bash /verif/lib/seedtest.sh $d/patch.diff C$i 2>&1 | tail -4
done
