#!/bin/bash
# Re-run every saved seeded change against the checks recorded as catching it (quick tier).
# Prints one line per (seed, check): CAUGHT / MISSED.  Leaves /repo clean.
cd /verif
for d in ${SEED_GLOB:-seeded/*/}; do
  id=$(basename "$d")
  checks=$(python3 -c "import json;print(' '.join(json.load(open('$d/meta.json'))['caught_by']))")
  git -C /repo apply --check "$PWD/$d/patch.diff" 2>/dev/null || { echo "$id PATCH-DOES-NOT-APPLY"; continue; }
  git -C /repo apply "$PWD/$d/patch.diff"
  for c in $checks; do
    out=$(./check $c --tier quick 2>&1); rc=$?
    if echo "$out" | grep -q "^VIOLATION property=$c"; then echo "$id $c CAUGHT"; else echo "$id $c MISSED (exit $rc)"; fi
  done
  git -C /repo checkout -- . 
done
git -C /repo status --short | head -3
# the runs above rewrote evidence/*.json from a patched tree: restore the committed (clean-tree) evidence
git -C /verif checkout -- evidence
