#!/bin/bash
# Runs the repository's pinned test suite (guard off); exit 1 if any package fails.
out=$(for m in $(cat /w/out/gomods.txt); do
  MF=$(cd /repo/$m && . /w/out/goenv.sh && gomodflag)
  (cd /repo/$m && go test $MF -vet=off -count=1 -timeout 25m ./... 2>&1)
done)
echo "$out" | grep -E "^(ok|FAIL|---|panic)" | grep -v "no test files"
if echo "$out" | grep -qE "^(FAIL|panic|--- FAIL)"; then exit 1; fi
exit 0
