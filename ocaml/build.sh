#!/bin/bash
# Extract the Coq model and build the OCaml driver.  Run after `make` in ../coq.
set -e
cd "$(dirname "$0")"
coqc -Q ../coq/Model Model -Q ../coq/Spec Spec ../coq/Extract.v > extract.log 2>&1 || { cat extract.log; exit 1; }
python3 - <<'PY'
import re
src = open('model.ml').read()
m = re.search(r'type ttype =\n((?:\| \w+\n)+)', src)
names = re.findall(r'\| (\w+)', m.group(1))
with open('ttype_names.ml', 'w') as f:
    f.write('open Model\nlet name (t : ttype) : string = match t with\n')
    for n in names:
        f.write('  | %s -> "%s"\n' % (n, re.sub(r"[0-9']+$", '', n)))
PY
ocamlfind ocamlopt -O3 -w -a -package str,unix -linkpkg model.mli model.ml zarith_free.ml ttype_names.ml driver.ml -o driver 2>build.log || \
ocamlfind ocamlopt -w -a -package unix -linkpkg model.mli model.ml zarith_free.ml ttype_names.ml driver.ml -o driver 2>build.log || { cat build.log; exit 1; }
echo built
