#!/bin/bash
# Extract the Coq model and build the OCaml driver.  Run after `make` in ../coq.
set -e
cd "$(dirname "$0")"
coqc -Q ../coq/Model Model -Q ../coq/Spec Spec ../coq/Extract.v > extract.log 2>&1 || { cat extract.log; exit 1; }
ocamlfind ocamlopt -O3 -w -a -package str model.mli model.ml zarith_free.ml driver.ml -o driver 2>build.log || \
ocamlfind ocamlopt -w -a model.mli model.ml zarith_free.ml driver.ml -o driver 2>build.log || { cat build.log; exit 1; }
echo built
