(* decimal <-> Coq Z conversion using the extracted arithmetic only (no OCaml int overflow) *)
open Model

let rec pos_of_small (i : int) : positive =
  if i = 1 then XH else if i land 1 = 0 then XO (pos_of_small (i lsr 1)) else XI (pos_of_small (i lsr 1))
let z_of_small (i : int) : z = if i = 0 then Z0 else if i > 0 then Zpos (pos_of_small i) else Zneg (pos_of_small (-i))

let ten = z_of_small 10

let of_decimal (s : string) : z =
  let acc = ref Z0 in
  String.iter (fun c ->
    if c < '0' || c > '9' then failwith "of_decimal";
    acc := Z.add (Z.mul !acc ten) (z_of_small (Char.code c - 48))) s;
  !acc

let neg (x : z) : z = Z.opp x

let rec small_of_pos (p : positive) : int = match p with XH -> 1 | XO q -> 2 * small_of_pos q | XI q -> 2 * small_of_pos q + 1

let to_decimal (x : z) : string =
  match x with
  | Z0 -> "0"
  | _ ->
    let neg = (match x with Zneg _ -> true | _ -> false) in
    let a = ref (match x with Zneg p -> Zpos p | y -> y) in
    let buf = Buffer.create 20 in
    while !a <> Z0 do
      let (q, r) = Z.div_eucl !a ten in
      let d = (match r with Z0 -> 0 | Zpos p -> small_of_pos p | Zneg _ -> 0) in
      Buffer.add_char buf (Char.chr (48 + d));
      a := q
    done;
    let s = Buffer.contents buf in
    let n = String.length s in
    let r = String.init n (fun i -> s.[n - 1 - i]) in
    if neg then "-" ^ r else r
