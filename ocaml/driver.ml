(* Driver for the extracted Coq model: reads one case per line as an s-expression, runs the model,
   prints "ID<TAB>result-sexp".  I/O and data conversion only; no logic of its own. *)
open Model

(* ---------- s-expressions ---------- *)
type sx = A of string | L of sx list

exception Parse_error of string

let parse_sexp (s : string) : sx =
  let n = String.length s in
  let pos = ref 0 in
  let rec skip () = while !pos < n && (s.[!pos] = ' ' || s.[!pos] = '\t' || s.[!pos] = '\n' || s.[!pos] = '\r') do incr pos done
  and one () =
    skip ();
    if !pos >= n then raise (Parse_error "eof");
    if s.[!pos] = '(' then begin
      incr pos;
      let items = ref [] in
      let fin = ref false in
      while not !fin do
        skip ();
        if !pos >= n then raise (Parse_error "unclosed");
        if s.[!pos] = ')' then (incr pos; fin := true) else items := one () :: !items
      done;
      L (List.rev !items)
    end else begin
      let st = !pos in
      while !pos < n && s.[!pos] <> ' ' && s.[!pos] <> '(' && s.[!pos] <> ')' && s.[!pos] <> '\t' && s.[!pos] <> '\n' do incr pos done;
      A (String.sub s st (!pos - st))
    end
  in
  one ()

(* ---------- numbers ---------- *)
let rec nat_of_int (i : int) : nat = if i <= 0 then O else S (nat_of_int (i - 1))
let rec int_of_nat (n : nat) : int = match n with O -> 0 | S m -> 1 + int_of_nat m

let rec pos_of_int (i : int) : positive =
  if i = 1 then XH else if i land 1 = 0 then XO (pos_of_int (i lsr 1)) else XI (pos_of_int (i lsr 1))
let n_of_int (i : int) : n = if i = 0 then N0 else Npos (pos_of_int i)
let rec int_of_pos (p : positive) : int = match p with XH -> 1 | XO q -> 2 * int_of_pos q | XI q -> 2 * int_of_pos q + 1
let int_of_n (x : n) : int = match x with N0 -> 0 | Npos p -> int_of_pos p

(* Z from a decimal string of any size (no OCaml int overflow) *)
let z_of_string (s : string) : z =
  let neg = String.length s > 0 && s.[0] = '-' in
  let digits = if neg || (String.length s > 0 && s.[0] = '+') then String.sub s 1 (String.length s - 1) else s in
  let zz = Zarith_free.of_decimal digits in
  if neg then Zarith_free.neg zz else zz

let string_of_z (x : z) : string = Zarith_free.to_decimal x

(* ---------- bytes ---------- *)
let hexval c = match c with
  | '0'..'9' -> Char.code c - 48 | 'a'..'f' -> Char.code c - 87 | 'A'..'F' -> Char.code c - 55
  | _ -> raise (Parse_error "hex")

let bytes_of_atom (a : string) : bytes =
  (* "h" ^ hex *)
  if String.length a = 0 || a.[0] <> 'h' then raise (Parse_error ("expected hex atom: " ^ a));
  let n = (String.length a - 1) / 2 in
  List.init n (fun i -> n_of_int (hexval a.[1 + 2 * i] * 16 + hexval a.[2 + 2 * i]))

let atom_of_bytes (b : bytes) : string =
  let buf = Buffer.create 16 in
  Buffer.add_char buf 'h';
  List.iter (fun x -> Buffer.add_string buf (Printf.sprintf "%02x" (int_of_n x))) b;
  Buffer.contents buf

let bool_of = function A "t" -> true | A "f" -> false | _ -> raise (Parse_error "bool")
let int_of = function A s -> int_of_string s | _ -> raise (Parse_error "int")
let nat_of x = nat_of_int (int_of x)
let z_of = function A s -> z_of_string s | _ -> raise (Parse_error "z")
let by_of = function A s -> bytes_of_atom s | _ -> raise (Parse_error "bytes")

(* ---------- AST readers ---------- *)
let cls_of = function
  | A "ANY" -> CAny | A "WS" -> CWhitespace | A "DIGIT" -> CDigit | A "UPPER" -> CUpper
  | A "LOWER" -> CLower | A "LETTER" -> CLetter | A "LStart" -> CLineStart | A "FStart" -> CFileStart
  | A "WStart" -> CWordStart | A "LEnd" -> CLineEnd | A "FEnd" -> CFileEnd | A "WEnd" -> CWordEnd
  | A "WLine" -> CWholeLine | A "WFile" -> CWholeFile | A "WWord" -> CWholeWord
  | _ -> raise (Parse_error "class")

let string_of_cls = function
  | CAny -> "ANY" | CWhitespace -> "WS" | CDigit -> "DIGIT" | CUpper -> "UPPER" | CLower -> "LOWER"
  | CLetter -> "LETTER" | CLineStart -> "LStart" | CFileStart -> "FStart" | CWordStart -> "WStart"
  | CLineEnd -> "LEnd" | CFileEnd -> "FEnd" | CWordEnd -> "WEnd" | CWholeLine -> "WLine"
  | CWholeFile -> "WFile" | CWholeWord -> "WWord"

let binop_of = function
  | A "AND" -> OAnd | A "OR" -> OOr | A "PLUS" -> OPlus | A "MINUS" -> OMinus | A "MULT" -> OMult
  | A "DIV" -> ODiv | A "MOD" -> OMod | A "LESS" -> OLess | A "GREATER" -> OGreater
  | A "LESSEQ" -> OLessEq | A "GREATEREQ" -> OGreaterEq | A "DEQUAL" -> ODEqual | A "NEQUAL" -> ONEqual
  | A s -> raise (Parse_error ("binop " ^ s)) | _ -> raise (Parse_error "binop")
let string_of_binop = function
  | OAnd -> "AND" | OOr -> "OR" | OPlus -> "PLUS" | OMinus -> "MINUS" | OMult -> "MULT" | ODiv -> "DIV"
  | OMod -> "MOD" | OLess -> "LESS" | OGreater -> "GREATER" | OLessEq -> "LESSEQ" | OGreaterEq -> "GREATEREQ"
  | ODEqual -> "DEQUAL" | ONEqual -> "NEQUAL"
let unop_of = function
  | A "NOT" -> UNot | A "HEAD" -> UHead | A "TAIL" -> UTail | _ -> raise (Parse_error "unop")
let string_of_unop = function UNot -> "NOT" | UHead -> "HEAD" | UTail -> "TAIL"

let rec pexpr_of = function
  | L [A "bin"; op; l; r] -> PEBin (binop_of op, pexpr_of l, pexpr_of r)
  | L [A "un"; op; e] -> PEUn (unop_of op, pexpr_of e)
  | L [A "pstr"; v] -> PEStr (by_of v)
  | L [A "pnum"; v] -> PENum (z_of v)
  | L [A "pbool"; v] -> PEBool (bool_of v)
  | L [A "pvar"; v] -> PEVar (by_of v)
  | _ -> raise (Parse_error "pexpr")

let rec pstmt_of = function
  | L [A "pset"; n; e] -> PSSet (by_of n, pexpr_of e)
  | L [A "pret"; e] -> PSReturn (pexpr_of e)
  | L [A "pif"; c; L t; L f] -> PSIf (pexpr_of c, pstmts_of t, pstmts_of f)
  | L [A "pdebug"; e] -> PSDebug (pexpr_of e)
  | L [A "ploop"; L b] -> PSLoop (pstmts_of b)
  | L [A "pcontinue"] -> PSContinue
  | L [A "pbreak"] -> PSBreak
  | _ -> raise (Parse_error "pstmt")
and pstmts_of = function [] -> PNil | s :: r -> PCons (pstmt_of s, pstmts_of r)

let listable_of = function
  | L [A "str"; nt; cl; v] -> LiStr (bool_of nt, bool_of cl, by_of v)
  | L [A "class"; nt; c] -> LiClass (bool_of nt, cls_of c)
  | L [A "range"; f; t] -> LiRange (by_of f, by_of t)
  | _ -> raise (Parse_error "listable")

let rec expr_of = function
  | L [A "loop"; mn; mx; fw; nm; b] -> ELoop (nat_of mn, z_of mx, bool_of fw, by_of nm, expr_of b)
  | L [A "branch"; l; r] -> EBranch (lit_of l, expr_of r)
  | L [A "dec"; n; l] -> EDec (by_of n, lit_of l)
  | L [A "sub"; n; L b] -> ESub (by_of n, exprs_of b)
  | L [A "list"; nt; L items] -> EList (bool_of nt, List.map listable_of items)
  | L [A "prim"; l] -> EPrim (lit_of l)
  | _ -> raise (Parse_error "expr")
and lit_of = function
  | L [A "str"; nt; cl; v] -> LStr (bool_of nt, bool_of cl, by_of v)
  | L [A "subexpr"; L b] -> LSubExpr (exprs_of b)
  | L [A "var"; n] -> LVar (by_of n)
  | L [A "class"; nt; c] -> LClass (bool_of nt, cls_of c)
  | _ -> raise (Parse_error "lit")
and exprs_of = function [] -> ENil | e :: r -> ECons (expr_of e, exprs_of r)

let atom_of = function
  | L [A "str"; nt; cl; v] -> AStr (bool_of nt, bool_of cl, by_of v)
  | L [A "var"; n] -> AVar (by_of n)
  | _ -> raise (Parse_error "atom")

let rec command_of = function
  | L [A "find"; all; sk; tk; la; L b] -> CFind (bool_of all, nat_of sk, nat_of tk, nat_of la, exprs_of b)
  | L [A "replace"; all; sk; tk; la; L b; L r] ->
      CReplace (bool_of all, nat_of sk, nat_of tk, nat_of la, exprs_of b, List.map atom_of r)
  | L [A "set"; id; L [A "pattern"; L p; L s]] -> CSetPattern (by_of id, exprs_of p, pstmts_of s)
  | L [A "set"; id; L [A "transform"; L s]] -> CSetTransform (by_of id, pstmts_of s)
  | L [A "set"; id; L [A "matches"; c]] -> CSetMatches (by_of id, command_of c)
  | _ -> raise (Parse_error "command")

let program_of = function L cs -> List.map command_of cs | _ -> raise (Parse_error "program")

(* ---------- bytecode readers / printers ---------- *)
let loop_id_of = function
  | A s when String.length s > 0 && s.[0] = 'L' -> nat_of_int (int_of_string (String.sub s 1 (String.length s - 1)))
  | _ -> raise (Parse_error "loop id")

let instr_of = function
  | L [A "lit"; nt; cl; v] -> IMatchLit (bool_of nt, bool_of cl, by_of v)
  | L [A "class"; nt; c] -> IMatchClass (bool_of nt, cls_of c)
  | L [A "mvar"; n] -> IMatchVar (by_of n)
  | L [A "range"; nt; f; t] -> IMatchRange (bool_of nt, by_of f, by_of t)
  | L [A "call"; n; pc] -> ICall (by_of n, nat_of pc)
  | L [A "branch"; L bs] -> IBranch (List.map nat_of bs)
  | L [A "startnotin"; pc] -> IStartNotIn (nat_of pc)
  | L [A "failnotin"] -> IFailNotIn
  | L [A "endnotin"; m] -> IEndNotIn (z_of m)
  | L [A "startloop"; id; mn; mx; fw; ex; nm] -> IStartLoop (loop_id_of id, nat_of mn, z_of mx, bool_of fw, nat_of ex, by_of nm)
  | L [A "stoploop"; id; mn; mx; fw; st; nm] -> IStopLoop (loop_id_of id, nat_of mn, z_of mx, bool_of fw, nat_of st, by_of nm)
  | L [A "startvar"; n] -> IStartVar (by_of n)
  | L [A "endvar"; n] -> IEndVar (by_of n)
  | L [A "startsub"; id; n; eo] -> IStartSub (nat_of id, by_of n, nat_of eo)
  | L [A "endsub"; n; L v] -> IEndSub (by_of n, pstmts_of v)
  | L [A "jump"; t] -> IJump (nat_of t)
  | _ -> raise (Parse_error "instr")

let rinstr_of = function
  | L [A "rstr"; v] -> RString (by_of v)
  | L [A "rvar"; n] -> RVariable (by_of n)
  | L [A "rproc"; L s] -> RProcess (pstmts_of s)
  | _ -> raise (Parse_error "rinstr")

let rec bcommand_of = function
  | L [A "find"; all; sk; tk; la; L b] -> BFind (bool_of all, nat_of sk, nat_of tk, nat_of la, List.map instr_of b)
  | L [A "replace"; all; sk; tk; la; L b; L r] ->
      BReplace (bool_of all, nat_of sk, nat_of tk, nat_of la, List.map instr_of b, List.map rinstr_of r)
  | L [A "set"; id; L [A "pattern"; L c; L s]] -> BSetPattern (by_of id, List.map instr_of c, pstmts_of s)
  | L [A "set"; id; L [A "transform"; L s]] -> BSetTransform (by_of id, pstmts_of s)
  | L [A "set"; id; L [A "matches"; c]] -> BSetMatches (by_of id, bcommand_of c)
  | _ -> raise (Parse_error "bcommand")

let bprogram_of = function L cs -> List.map bcommand_of cs | _ -> raise (Parse_error "bprogram")

let bl b = if b then "t" else "f"
let ni n = string_of_int (int_of_nat n)
let paren parts = "(" ^ String.concat " " parts ^ ")"

let rec sx_pexpr = function
  | PEBin (op, l, r) -> paren ["bin"; string_of_binop op; sx_pexpr l; sx_pexpr r]
  | PEUn (op, e) -> paren ["un"; string_of_unop op; sx_pexpr e]
  | PEStr v -> paren ["pstr"; atom_of_bytes v]
  | PENum v -> paren ["pnum"; string_of_z v]
  | PEBool v -> paren ["pbool"; bl v]
  | PEVar v -> paren ["pvar"; atom_of_bytes v]

let rec sx_pstmt = function
  | PSSet (n, e) -> paren ["pset"; atom_of_bytes n; sx_pexpr e]
  | PSReturn e -> paren ["pret"; sx_pexpr e]
  | PSIf (c, t, f) -> paren ["pif"; sx_pexpr c; sx_pstmts t; sx_pstmts f]
  | PSDebug e -> paren ["pdebug"; sx_pexpr e]
  | PSLoop b -> paren ["ploop"; sx_pstmts b]
  | PSContinue -> "(pcontinue)"
  | PSBreak -> "(pbreak)"
and sx_pstmts ss = paren (List.map sx_pstmt (pstmts_to_list ss))

let sx_instr = function
  | IMatchLit (nt, cl, v) -> paren ["lit"; bl nt; bl cl; atom_of_bytes v]
  | IMatchClass (nt, c) -> paren ["class"; bl nt; string_of_cls c]
  | IMatchVar n -> paren ["mvar"; atom_of_bytes n]
  | IMatchRange (nt, f, t) -> paren ["range"; bl nt; atom_of_bytes f; atom_of_bytes t]
  | ICall (n, pc) -> paren ["call"; atom_of_bytes n; ni pc]
  | IBranch bs -> paren ["branch"; paren (List.map ni bs)]
  | IStartNotIn pc -> paren ["startnotin"; ni pc]
  | IFailNotIn -> "(failnotin)"
  | IEndNotIn m -> paren ["endnotin"; string_of_z m]
  | IStartLoop (id, mn, mx, fw, ex, nm) -> paren ["startloop"; "L" ^ ni id; ni mn; string_of_z mx; bl fw; ni ex; atom_of_bytes nm]
  | IStopLoop (id, mn, mx, fw, st, nm) -> paren ["stoploop"; "L" ^ ni id; ni mn; string_of_z mx; bl fw; ni st; atom_of_bytes nm]
  | IStartVar n -> paren ["startvar"; atom_of_bytes n]
  | IEndVar n -> paren ["endvar"; atom_of_bytes n]
  | IStartSub (id, n, eo) -> paren ["startsub"; ni id; atom_of_bytes n; ni eo]
  | IEndSub (n, v) -> paren ["endsub"; atom_of_bytes n; sx_pstmts v]
  | IJump t -> paren ["jump"; ni t]

let sx_rinstr = function
  | RString v -> paren ["rstr"; atom_of_bytes v]
  | RVariable n -> paren ["rvar"; atom_of_bytes n]
  | RProcess p -> paren ["rproc"; sx_pstmts p]

let rec sx_bcommand = function
  | BFind (all, sk, tk, la, b) -> paren ["find"; bl all; ni sk; ni tk; ni la; paren (List.map sx_instr b)]
  | BReplace (all, sk, tk, la, b, r) ->
      paren ["replace"; bl all; ni sk; ni tk; ni la; paren (List.map sx_instr b); paren (List.map sx_rinstr r)]
  | BSetPattern (id, c, v) -> paren ["set"; atom_of_bytes id; paren ["pattern"; paren (List.map sx_instr c); sx_pstmts v]]
  | BSetTransform (id, b) -> paren ["set"; atom_of_bytes id; paren ["transform"; sx_pstmts b]]
  | BSetMatches (id, c) -> paren ["set"; atom_of_bytes id; paren ["matches"; sx_bcommand c]]

let sx_bprogram cs = paren (List.map sx_bcommand cs)

(* ---------- matches ---------- *)
let rec sx_value = function
  | VStr s -> atom_of_bytes s
  | VMap m -> paren (List.map (fun (k, v) -> paren [atom_of_bytes k; sx_value v]) m)

let sx_match (m : mrec) =
  paren ["m"; ni m.mnum; ni m.mstart; ni m.mend; ni m.mlstart; ni m.mlend; ni m.mcstart; ni m.mcend;
         atom_of_bytes m.mvalue;
         (match m.mrepl with None -> "none" | Some r -> atom_of_bytes r);
         sx_value (canon_value (VMap m.mvars))]

let sx_matches ms = paren (List.map sx_match ms)

let string_of_crash = function
  | CrDivZero -> "divzero" | CrUndefinedOp -> "undefop" | CrIndex -> "index" | CrNil -> "nil"
  | CrBadInstr -> "badinstr" | CrIO -> "io"

let sx_rres = function
  | ROk ms -> paren ["ok"; sx_matches ms]
  | RCrash w -> paren ["crash"; string_of_crash w]
  | RFuel -> "(fuel)"

let sx_generr = function
  | GNameClash n -> paren ["nameclash"; atom_of_bytes n]
  | GUndefined n -> paren ["undefined"; atom_of_bytes n]
  | GCheck m -> paren ["check"; ni m]

(* ---------- operations ---------- *)

(* ---------- AST printers (same format as harness/sexp.go) ---------- *)
let zi z = string_of_z z
let sx_listable = function
  | LiStr (nt, cl, v) -> paren ["str"; bl nt; bl cl; atom_of_bytes v]
  | LiClass (nt, c) -> paren ["class"; bl nt; string_of_cls c]
  | LiRange (f, t) -> paren ["range"; atom_of_bytes f; atom_of_bytes t]
let rec sx_expr = function
  | ELoop (mn, mx, fw, nm, b) -> paren ["loop"; ni mn; zi mx; bl fw; atom_of_bytes nm; sx_expr b]
  | EBranch (l, r) -> paren ["branch"; sx_lit l; sx_expr r]
  | EDec (n, l) -> paren ["dec"; atom_of_bytes n; sx_lit l]
  | ESub (n, b) -> paren ["sub"; atom_of_bytes n; sx_exprs b]
  | EList (nt, items) -> paren ["list"; bl nt; paren (List.map sx_listable items)]
  | EPrim l -> paren ["prim"; sx_lit l]
and sx_lit = function
  | LStr (nt, cl, v) -> paren ["str"; bl nt; bl cl; atom_of_bytes v]
  | LSubExpr b -> paren ["subexpr"; sx_exprs b]
  | LVar n -> paren ["var"; atom_of_bytes n]
  | LClass (nt, c) -> paren ["class"; bl nt; string_of_cls c]
and sx_exprs es = paren (List.map sx_expr (exprs_to_list es))
let sx_atom = function
  | AStr (nt, cl, v) -> paren ["str"; bl nt; bl cl; atom_of_bytes v]
  | AVar n -> paren ["var"; atom_of_bytes n]
let rec sx_command = function
  | CFind (all, sk, tk, la, b) -> paren ["find"; bl all; ni sk; ni tk; ni la; sx_exprs b]
  | CReplace (all, sk, tk, la, b, r) -> paren ["replace"; bl all; ni sk; ni tk; ni la; sx_exprs b; paren (List.map sx_atom r)]
  | CSetPattern (id, p, s) -> paren ["set"; atom_of_bytes id; paren ["pattern"; sx_exprs p; sx_pstmts s]]
  | CSetTransform (id, s) -> paren ["set"; atom_of_bytes id; paren ["transform"; sx_pstmts s]]
  | CSetMatches (id, c) -> paren ["set"; atom_of_bytes id; paren ["matches"; sx_command c]]
let sx_program cs = paren (List.map sx_command cs)

(* UTF-8 decoding of a byte list into code points (valid input only; anything else -> U+FFFD per byte) *)
let runes_of_bytes (b : bytes) : n list =
  let a = Array.of_list (List.map int_of_n b) in
  let len = Array.length a in
  let out = ref [] in
  let i = ref 0 in
  let cont k = !i + k < len && a.(!i + k) land 0xC0 = 0x80 in
  while !i < len do
    let c = a.(!i) in
    if c < 0x80 then (out := c :: !out; incr i)
    else if c land 0xE0 = 0xC0 && c >= 0xC2 && cont 1 then (out := (((c land 0x1F) lsl 6) lor (a.(!i+1) land 0x3F)) :: !out; i := !i + 2)
    else if c land 0xF0 = 0xE0 && cont 1 && cont 2 then
      (out := (((c land 0x0F) lsl 12) lor ((a.(!i+1) land 0x3F) lsl 6) lor (a.(!i+2) land 0x3F)) :: !out; i := !i + 3)
    else if c land 0xF8 = 0xF0 && cont 1 && cont 2 && cont 3 then
      (out := (((c land 0x07) lsl 18) lor ((a.(!i+1) land 0x3F) lsl 12) lor ((a.(!i+2) land 0x3F) lsl 6) lor (a.(!i+3) land 0x3F)) :: !out; i := !i + 4)
    else (out := 0xFFFD :: !out; incr i)
  done;
  List.rev_map n_of_int !out

let string_of_ttype (t : ttype) : string = Ttype_names.name t
let string_of_lexerr = function
  | LEUnknownToken -> "unknown-token" | LEUnendingString -> "unending-string"
  | LEUnendingBlockComment -> "unending-block-comment" | LEUnendingRegexp -> "unending-regexp"

(* ---------- Coq-term printers (cross-check of the extraction: the terms are re-checked by coqc) ---------- *)
let cq_n (x : n) = string_of_int (int_of_n x) ^ "%N"
let cq_nat (x : nat) = string_of_int (int_of_nat x) ^ "%nat"
let cq_z (x : z) = "(" ^ string_of_z x ^ ")%Z"
let cq_bool b = if b then "true" else "false"
let cq_list f l = "[" ^ String.concat "; " (List.map f l) ^ "]"
let cq_bytes (b : bytes) = "(" ^ cq_list cq_n b ^ " : list N)"
let cq_cls c = match c with
  | CAny -> "CAny" | CWhitespace -> "CWhitespace" | CDigit -> "CDigit" | CUpper -> "CUpper" | CLower -> "CLower" | CLetter -> "CLetter"
  | CLineStart -> "CLineStart" | CFileStart -> "CFileStart" | CWordStart -> "CWordStart" | CLineEnd -> "CLineEnd" | CFileEnd -> "CFileEnd"
  | CWordEnd -> "CWordEnd" | CWholeLine -> "CWholeLine" | CWholeFile -> "CWholeFile" | CWholeWord -> "CWholeWord"
let cq_binop o = "O" ^ (match string_of_binop o with
  | "AND" -> "And" | "OR" -> "Or" | "PLUS" -> "Plus" | "MINUS" -> "Minus" | "MULT" -> "Mult" | "DIV" -> "Div" | "MOD" -> "Mod"
  | "LESS" -> "Less" | "GREATER" -> "Greater" | "LESSEQ" -> "LessEq" | "GREATEREQ" -> "GreaterEq" | "DEQUAL" -> "DEqual" | _ -> "NEqual")
let cq_unop = function UNot -> "UNot" | UHead -> "UHead" | UTail -> "UTail"
let rec cq_pexpr = function
  | PEBin (o, l, r) -> "(PEBin " ^ cq_binop o ^ " " ^ cq_pexpr l ^ " " ^ cq_pexpr r ^ ")"
  | PEUn (o, e) -> "(PEUn " ^ cq_unop o ^ " " ^ cq_pexpr e ^ ")"
  | PEStr v -> "(PEStr " ^ cq_bytes v ^ ")"
  | PENum v -> "(PENum " ^ cq_z v ^ ")"
  | PEBool v -> "(PEBool " ^ cq_bool v ^ ")"
  | PEVar v -> "(PEVar " ^ cq_bytes v ^ ")"
let rec cq_pstmt = function
  | PSSet (n, e) -> "(PSSet " ^ cq_bytes n ^ " " ^ cq_pexpr e ^ ")"
  | PSReturn e -> "(PSReturn " ^ cq_pexpr e ^ ")"
  | PSIf (c, t, f) -> "(PSIf " ^ cq_pexpr c ^ " " ^ cq_pstmts t ^ " " ^ cq_pstmts f ^ ")"
  | PSDebug e -> "(PSDebug " ^ cq_pexpr e ^ ")"
  | PSLoop b -> "(PSLoop " ^ cq_pstmts b ^ ")"
  | PSContinue -> "PSContinue" | PSBreak -> "PSBreak"
and cq_pstmts = function PNil -> "PNil" | PCons (s, r) -> "(PCons " ^ cq_pstmt s ^ " " ^ cq_pstmts r ^ ")"
let cq_listable = function
  | LiStr (a, b, v) -> "(LiStr " ^ cq_bool a ^ " " ^ cq_bool b ^ " " ^ cq_bytes v ^ ")"
  | LiClass (a, c) -> "(LiClass " ^ cq_bool a ^ " " ^ cq_cls c ^ ")"
  | LiRange (f, t) -> "(LiRange " ^ cq_bytes f ^ " " ^ cq_bytes t ^ ")"
let rec cq_expr = function
  | ELoop (mn, mx, fw, nm, b) -> "(ELoop " ^ cq_nat mn ^ " " ^ cq_z mx ^ " " ^ cq_bool fw ^ " " ^ cq_bytes nm ^ " " ^ cq_expr b ^ ")"
  | EBranch (l, r) -> "(EBranch " ^ cq_lit l ^ " " ^ cq_expr r ^ ")"
  | EDec (n, l) -> "(EDec " ^ cq_bytes n ^ " " ^ cq_lit l ^ ")"
  | ESub (n, b) -> "(ESub " ^ cq_bytes n ^ " " ^ cq_exprs b ^ ")"
  | EList (a, items) -> "(EList " ^ cq_bool a ^ " " ^ cq_list cq_listable items ^ ")"
  | EPrim l -> "(EPrim " ^ cq_lit l ^ ")"
and cq_lit = function
  | LStr (a, b, v) -> "(LStr " ^ cq_bool a ^ " " ^ cq_bool b ^ " " ^ cq_bytes v ^ ")"
  | LSubExpr b -> "(LSubExpr " ^ cq_exprs b ^ ")"
  | LVar n -> "(LVar " ^ cq_bytes n ^ ")"
  | LClass (a, c) -> "(LClass " ^ cq_bool a ^ " " ^ cq_cls c ^ ")"
and cq_exprs = function ENil -> "ENil" | ECons (e, r) -> "(ECons " ^ cq_expr e ^ " " ^ cq_exprs r ^ ")"
let cq_atom = function
  | AStr (a, b, v) -> "(AStr " ^ cq_bool a ^ " " ^ cq_bool b ^ " " ^ cq_bytes v ^ ")"
  | AVar n -> "(AVar " ^ cq_bytes n ^ ")"
let rec cq_command = function
  | CFind (a, s, t, l, b) -> "(CFind " ^ cq_bool a ^ " " ^ cq_nat s ^ " " ^ cq_nat t ^ " " ^ cq_nat l ^ " " ^ cq_exprs b ^ ")"
  | CReplace (a, s, t, l, b, r) -> "(CReplace " ^ cq_bool a ^ " " ^ cq_nat s ^ " " ^ cq_nat t ^ " " ^ cq_nat l ^ " " ^ cq_exprs b ^ " " ^ cq_list cq_atom r ^ ")"
  | CSetPattern (id, p, s) -> "(CSetPattern " ^ cq_bytes id ^ " " ^ cq_exprs p ^ " " ^ cq_pstmts s ^ ")"
  | CSetTransform (id, s) -> "(CSetTransform " ^ cq_bytes id ^ " " ^ cq_pstmts s ^ ")"
  | CSetMatches (id, c) -> "(CSetMatches " ^ cq_bytes id ^ " " ^ cq_command c ^ ")"
let cq_lexerr = function
  | LEUnknownToken -> "LEUnknownToken" | LEUnendingString -> "LEUnendingString"
  | LEUnendingBlockComment -> "LEUnendingBlockComment" | LEUnendingRegexp -> "LEUnendingRegexp"
let cq_front = function
  | FOk p -> "(FOk " ^ cq_list cq_command p ^ ")"
  | FLexErr e -> "(FLexErr " ^ cq_lexerr e ^ ")"
  | FParseErr -> "FParseErr" | FCrash -> "FCrash" | FHang -> "FHang"

let fuel_of_opt = function [] -> vm_fuel_default | x :: _ -> nat_of x

let handle (case : sx) : string =
  match case with
  | L (A id :: A "gen" :: [ast]) ->
      (match compile_ast (program_of ast) with
       | GOk bc -> id ^ "\t" ^ paren ["ok"; sx_bprogram bc]
       | GErr e -> id ^ "\t" ^ paren ["err"; sx_generr e])
  | L (A id :: A "run" :: ast :: L texts :: rest) ->
      (* compile with the model generator, run the model VM on every text *)
      (match compile_ast (program_of ast) with
       | GErr e -> id ^ "\t" ^ paren ["err"; sx_generr e]
       | GOk bc ->
           let fuel = fuel_of_opt rest in
           let outs = List.map (fun t -> sx_rres (run_commands fuel (by_of t) bc)) texts in
           id ^ "\t" ^ paren ["ok"; sx_bprogram bc; paren outs])
  | L (A id :: A "runbc" :: bc :: L texts :: rest) ->
      (* run the model VM on bytecode produced by the implementation *)
      let bcp = bprogram_of bc in
      let fuel = fuel_of_opt rest in
      let outs = List.map (fun t -> sx_rres (run_commands fuel (by_of t) bcp)) texts in
      id ^ "\t" ^ paren ["ok"; paren outs]
  | L (A id :: A "splice" :: ast :: fname :: L texts :: rest) ->
      (* what each replace command of the program writes for each text *)
      (match compile_ast (program_of ast) with
       | GErr e -> id ^ "\t" ^ paren ["err"; sx_generr e]
       | GOk bc ->
           let fuel = fuel_of_opt rest in
           let outs = List.map (fun t ->
             paren (List.map (fun c -> match replace_output fuel (by_of fname) (by_of t) c with
                                       | Some b -> atom_of_bytes b | None -> "none") bc)) texts in
           id ^ "\t" ^ paren ["ok"; paren outs])
  | L (A id :: A "spec" :: ast :: L texts :: rest) ->
      (* the specification's matches (all-window) of every find/replace command, per text *)
      (match resolve_program (program_of ast) init_gstate with
       | GErr e -> id ^ "\t" ^ paren ["err"; sx_generr e]
       | GOk rxs ->
           let fuel = (match rest with [] -> nat_of_int 400 | x :: _ -> nat_of x) in
           let outs = List.map (fun t ->
             let text = by_of t in
             paren (List.map (fun ro -> match ro with
               | None -> "(set)"
               | Some r ->
                 (match spec_find_all fuel r text with
                  | None -> "(nofuel)"
                  | Some spans -> paren ("spans" :: List.map (fun sp ->
                      paren [ni sp.sp_start; ni sp.sp_end; sx_value (canon_value (VMap sp.sp_env))]) spans))) rxs)) texts in
           id ^ "\t" ^ paren ["ok"; paren outs])
  | L (A id :: A "reader" :: bsz :: content :: [L ops]) ->
      (* buffered reader over a file with the given content: list of (off len) reads *)
      let f = by_of content in
      let b = nat_of bsz in
      let ops' = List.map (function L [o; l] -> (nat_of o, nat_of l) | _ -> raise (Parse_error "op")) ops in
      (match rd_run b f (rd_new b f) ops' with
       | None -> id ^ "\t(hang)"
       | Some rs -> id ^ "\t" ^ paren ("ok" :: List.map atom_of_bytes rs))
  | L [A id; A "cli"; com; src; files; json; fjson; jf; fjf; A mode; noout] ->
      let m = (match mode with "unset" -> MUnset | "NEW" -> MNew | "NOTHING" -> MNothing | "OVERWRITE" -> MOverwrite | _ -> MBogus) in
      let f = { f_com = bool_of com; f_src = bool_of src; f_files = bool_of files; f_json = bool_of json; f_fjson = bool_of fjson;
                f_jsonfile = bool_of jf; f_fjsonfile = bool_of fjf; f_mode = m; f_nooutput = bool_of noout } in
      (match decide f with
       | Reject -> id ^ "\t(reject)"
       | Go p -> id ^ "\t" ^ paren ["go";
                   (match p.p_mode with RNew -> "NEW" | RNothing -> "NOTHING" | ROverwrite -> "OVERWRITE");
                   (match p.p_stdout with OutNone -> "none" | OutHuman -> "human" | OutJson -> "json" | OutFormattedJson -> "fjson");
                   bl p.p_jsonfile; bl p.p_fjsonfile])
  | L (A id :: A "json" :: ast :: L texts :: rest) ->
      (* compact and tab-indented JSON of the model's result list, per text *)
      (match compile_ast (program_of ast) with
       | GErr e -> id ^ "\t" ^ paren ["err"; sx_generr e]
       | GOk bc ->
           let fuel = fuel_of_opt rest in
           let outs = List.map (fun t ->
             match run_commands fuel (by_of t) bc with
             | ROk ms -> let j = matches_json text_name ms in paren [atom_of_bytes (compact j); atom_of_bytes (indent O j)]
             | _ -> "(none)") texts in
           id ^ "\t" ^ paren ["ok"; paren outs])
  | L [A id; A "lex"; src] ->
      (match lex (runes_of_bytes (by_of src)) with
       | LexOk ts -> id ^ "\t" ^ paren ["ok"; paren (List.map (fun t -> paren [string_of_ttype t.ttyp; atom_of_bytes t.lexeme]) ts)]
       | LexErr e -> id ^ "\t" ^ paren ["err"; string_of_lexerr e]
       | LexHang -> id ^ "\t(hang)")
  | L [A id; A "parse"; src] ->
      (match parse_source (runes_of_bytes (by_of src)) with
       | FOk p -> id ^ "\t" ^ paren ["ok"; sx_program p]
       | FLexErr e -> id ^ "\t" ^ paren ["lexerr"; string_of_lexerr e]
       | FParseErr -> id ^ "\t(parseerr)"
       | FCrash -> id ^ "\t(crash)"
       | FHang -> id ^ "\t(hang)")
  | L [A id; A "coqparse"; src] ->
      (* the extracted parser's result as a Coq term, together with the source as a Coq term *)
      let runes = runes_of_bytes (by_of src) in
      id ^ "\t" ^ "parse_source " ^ cq_bytes runes ^ " = " ^ cq_front (parse_source runes)
  | L [A id; A "coqspans"; ast; text] ->
      (* the spans the extracted generator + VM find, as a Coq term *)
      let p = program_of ast in
      let t = by_of text in
      let res = (match compile_ast p with
        | GErr _ -> "None"
        | GOk bc -> (match run_commands vm_fuel_default t bc with
            | ROk ms -> "Some " ^ cq_list (fun m -> "(" ^ cq_nat m.mstart ^ ", " ^ cq_nat m.mend ^ ")") ms
            | _ -> "None")) in
      id ^ "\t" ^ "spans_of " ^ cq_list cq_command p ^ " " ^ cq_bytes t ^ " = " ^ res
  | L (A id :: A "pm" :: pat :: [L names]) ->
      id ^ "\t" ^ paren (List.map (fun nm -> bl (pm (by_of nm) (by_of pat))) names)
  | L (A id :: A "glob" :: tree :: [L pats]) ->
      let rec node_of = function
        | L [A "f"; nm] -> NFile (by_of nm)
        | L [A "d"; nm; L cs] -> NDir (by_of nm, List.map node_of cs)
        | _ -> raise (Parse_error "node") in
      let cs = (match tree with L l -> List.map node_of l | _ -> raise (Parse_error "tree")) in
      id ^ "\t" ^ paren (List.map (fun p -> paren (List.map atom_of_bytes (get_file_list (split_slash (by_of p) []) cs []))) pats)
  | L (A id :: A "check" :: A ctx :: [L stmts]) ->
      let c = if ctx = "predicate" then CtxPredicate else CtxTransform in
      (match check_ok c (pstmts_of stmts) with
       | None -> id ^ "\t(accept)"
       | Some m -> id ^ "\t" ^ paren ["reject"; ni m])
  | L (A id :: _) -> id ^ "\t(error unknown-op)"
  | _ -> "?\t(error bad-case)"

(* every case runs under an alarm: one that the model cannot evaluate in time is answered "(resource)" and the next one is read *)
exception Case_timeout

let case_id (line : string) : string =
  let n = String.length line in
  let i = ref 0 in
  while !i < n && (line.[!i] = '(' || line.[!i] = ' ') do incr i done;
  let j = ref !i in
  while !j < n && line.[!j] <> ' ' && line.[!j] <> ')' do incr j done;
  String.sub line !i (!j - !i)

let () =
  let ic = if Array.length Sys.argv > 1 then open_in Sys.argv.(1) else stdin in
  let oc = if Array.length Sys.argv > 2 then open_out Sys.argv.(2) else stdout in
  let limit = (try int_of_string (Sys.getenv "VERIF_CASE_SECS") with _ -> 60) in
  Sys.set_signal Sys.sigalrm (Sys.Signal_handle (fun _ -> raise Case_timeout));
  (try
     while true do
       let line = input_line ic in
       if String.length (String.trim line) > 0 then begin
         let out =
           try
             ignore (Unix.alarm limit);
             let r = handle (parse_sexp line) in
             ignore (Unix.alarm 0); r
           with
           | Case_timeout -> ignore (Unix.alarm 0); case_id line ^ "\t(resource)"
           | Parse_error m -> (match (try parse_sexp line with _ -> A "?") with
                               | L (A id :: _) -> id ^ "\t" ^ paren ["error"; "parse"; String.map (fun c -> if c = ' ' then '_' else c) m]
                               | _ -> "?\t(error parse)")
           | Stack_overflow -> "?\t(error stack-overflow)"
           | e -> "?\t(error " ^ String.map (fun c -> if c = ' ' then '_' else c) (Printexc.to_string e) ^ ")"
         in
         ignore (Unix.alarm 0);
         output_string oc out; output_char oc '\n'; flush oc
       end
     done
   with End_of_file -> ());
  flush oc
